//! C17 oracle: every public way of reading a shared type must tell the same story.

use crate::dump::*;
use crate::engine::{CaseStats, Fail};
use crate::interp::*;
use crate::{ensure, fail};
use std::collections::BTreeMap;
use yrs::types::text::YChange;
use yrs::types::ToJson;
use yrs::{Any, Array, ArrayRef, GetString, Map, MapRef, OffsetKind, Out, ReadTxn, Text, Xml, XmlFragment, XmlOut};

fn text_reads<T: ReadTxn, X: Text + GetString>(txn: &T, t: &X, kind: OffsetKind, at: &str) -> Result<(), Fail> {
    let s = t.get_string(txn);
    let mut concat = String::new();
    let mut embeds = 0u32;
    for d in t.diff(txn, YChange::identity) {
        match &d.insert {
            Out::Any(Any::String(x)) => concat.push_str(x),
            _ => embeds += 1,
        }
    }
    ensure!(concat == s, "c17/text/diff-vs-get_string", "{}: concatenated diff chunks {:?} != get_string {:?}", at, concat, s);
    let expect = str_width(&s, kind) + embeds;
    ensure!(
        t.len(txn) == expect,
        "c17/text/len",
        "{}: len() = {} but get_string has width {} ({:?}) plus {} embeds",
        at,
        t.len(txn),
        str_width(&s, kind),
        kind,
        embeds
    );
    Ok(())
}

fn array_reads<T: ReadTxn>(txn: &T, a: &ArrayRef, at: &str) -> Result<(), Fail> {
    let items: Vec<Out> = a.iter(txn).collect();
    let len = a.len(txn) as usize;
    ensure!(len == items.len(), "c17/array/len-vs-iter", "{}: len() = {} but iter yields {}", at, len, items.len());
    match a.to_json(txn) {
        Any::Array(v) => ensure!(v.len() == len, "c17/array/len-vs-to_json", "{}: len() = {} but to_json has {} elements", at, len, v.len()),
        other => fail!("c17/array/to_json-kind", "{}: to_json is not an array: {}", at, other),
    }
    for (i, it) in items.iter().enumerate() {
        match a.get(txn, i as u32) {
            Some(g) => {
                let x = dump_out(txn, &g, 0);
                let y = dump_out(txn, it, 0);
                ensure!(x == y, "c17/array/get-vs-iter", "{}: get({}) = {} but iter gives {}", at, i, x.short(), y.short());
            }
            None => fail!("c17/array/get-none-in-range", "{}: get({}) is None although len() = {}", at, i, len),
        }
    }
    for i in [len, len + 1] {
        ensure!(a.get(txn, i as u32).is_none(), "c17/array/get-out-of-range", "{}: get({}) returned a value although len() = {}", at, i, len);
    }
    Ok(())
}

fn map_reads<T: ReadTxn>(txn: &T, m: &MapRef, at: &str) -> Result<(), Fail> {
    let len = m.len(txn) as usize;
    let keys: Vec<String> = m.keys(txn).map(|k| k.to_string()).collect();
    let nvalues = m.values(txn).count();
    let entries: Vec<(String, Out)> = m.iter(txn).map(|(k, v)| (k.to_string(), v)).collect();
    ensure!(
        keys.len() == len && nvalues == len && entries.len() == len,
        "c17/map/len",
        "{}: len() = {}, keys {}, values {}, iter {}",
        at,
        len,
        keys.len(),
        nvalues,
        entries.len()
    );
    let json = match m.to_json(txn) {
        Any::Map(j) => j,
        other => fail!("c17/map/to_json-kind", "{}: to_json is not a map: {}", at, other),
    };
    ensure!(json.len() == len, "c17/map/len-vs-to_json", "{}: len() = {} but to_json has {} entries", at, len, json.len());
    let mut sorted = keys.clone();
    sorted.sort();
    sorted.dedup();
    ensure!(sorted.len() == keys.len(), "c17/map/duplicate-key", "{}: keys() yields a key twice: {:?}", at, keys);
    for (k, v) in entries.iter() {
        ensure!(keys.contains(k), "c17/map/iter-vs-keys", "{}: iter yields key {:?} that keys() does not", at, k);
        ensure!(m.contains_key(txn, k), "c17/map/contains_key", "{}: contains_key({:?}) is false for an iterated key", at, k);
        ensure!(json.contains_key(k), "c17/map/to_json-key", "{}: to_json lacks key {:?}", at, k);
        match m.get(txn, k) {
            Some(g) => {
                let x = dump_out(txn, &g, 0);
                let y = dump_out(txn, v, 0);
                ensure!(x == y, "c17/map/get-vs-iter", "{}: get({:?}) = {} but iter gives {}", at, k, x.short(), y.short());
            }
            None => fail!("c17/map/get-none", "{}: get({:?}) is None for an iterated key", at, k),
        }
    }
    for k in crate::ops::MAP_KEYS.iter().chain(["never-used"].iter()) {
        if !keys.iter().any(|x| x == k) {
            ensure!(
                !m.contains_key(txn, k) && m.get(txn, k).is_none(),
                "c17/map/absent-key",
                "{}: key {:?} is not iterated but contains_key/get find it",
                at,
                k
            );
        }
    }
    Ok(())
}

fn xml_children_reads<T: ReadTxn, X: XmlFragment>(txn: &T, x: &X, self_id: Option<yrs::BranchID>, at: &str) -> Result<Vec<XmlOut>, Fail> {
    let children: Vec<XmlOut> = x.children(txn).collect();
    let len = x.len(txn) as usize;
    ensure!(len == children.len(), "c17/xml/len-vs-children", "{}: len() = {} but children yields {}", at, len, children.len());
    for (i, c) in children.iter().enumerate() {
        match x.get(txn, i as u32) {
            Some(g) => ensure!(g.id() == c.id(), "c17/xml/get-vs-children", "{}: get({}) is {:?} but children[{}] is {:?}", at, i, g.id(), i, c.id()),
            None => fail!("c17/xml/get-none-in-range", "{}: get({}) is None although len() = {}", at, i, len),
        }
        // parent of each child
        let parent = match c {
            XmlOut::Element(e) => e.parent(),
            XmlOut::Text(t) => t.parent(),
            XmlOut::Fragment(f) => f.parent(),
        };
        if let Some(sid) = &self_id {
            match parent {
                Some(p) => ensure!(p.id() == *sid, "c17/xml/parent", "{}: child {} reports parent {:?}, expected {:?}", at, i, p.id(), sid),
                None => fail!("c17/xml/parent", "{}: child {} reports no parent", at, i),
            }
        }
        // forward and backward siblings
        let (fwd, back): (Vec<yrs::BranchID>, Vec<yrs::BranchID>) = match c {
            XmlOut::Element(e) => (e.siblings(txn).map(|s| s.id()).collect(), e.siblings(txn).rev().map(|s| s.id()).collect()),
            XmlOut::Text(t) => (t.siblings(txn).map(|s| s.id()).collect(), t.siblings(txn).rev().map(|s| s.id()).collect()),
            XmlOut::Fragment(_) => continue,
        };
        let expect_fwd: Vec<yrs::BranchID> = children[i + 1..].iter().map(|s| s.id()).collect();
        let expect_back: Vec<yrs::BranchID> = children[..i].iter().rev().map(|s| s.id()).collect();
        ensure!(fwd == expect_fwd, "c17/xml/siblings-forward", "{}: child {} forward siblings {:?}, children say {:?}", at, i, fwd, expect_fwd);
        ensure!(back == expect_back, "c17/xml/siblings-backward", "{}: child {} backward siblings {:?}, children say {:?}", at, i, back, expect_back);
    }
    for i in [len, len + 1] {
        ensure!(x.get(txn, i as u32).is_none(), "c17/xml/get-out-of-range", "{}: get({}) returned a node although len() = {}", at, i, len);
    }
    match (x.first_child(), children.first()) {
        (Some(f), Some(c)) => ensure!(f.id() == c.id(), "c17/xml/first_child", "{}: first_child is {:?} but children[0] is {:?}", at, f.id(), c.id()),
        (None, None) => {}
        (f, c) => fail!("c17/xml/first_child", "{}: first_child {:?} vs children[0] {:?}", at, f.map(|x| x.id()), c.map(|x| x.id())),
    }
    // successors = DFS preorder over children
    fn preorder<T: ReadTxn>(txn: &T, n: &XmlOut, acc: &mut Vec<yrs::BranchID>) {
        acc.push(n.id());
        match n {
            XmlOut::Element(e) => {
                for c in e.children(txn) {
                    preorder(txn, &c, acc);
                }
            }
            XmlOut::Fragment(f) => {
                for c in f.children(txn) {
                    preorder(txn, &c, acc);
                }
            }
            XmlOut::Text(_) => {}
        }
    }
    let mut expect = Vec::new();
    for c in children.iter() {
        preorder(txn, c, &mut expect);
    }
    let got: Vec<yrs::BranchID> = x.successors(txn).map(|n| n.id()).collect();
    ensure!(got == expect, "c17/xml/successors", "{}: successors {:?} but depth-first walk over children gives {:?}", at, got, expect);
    Ok(children)
}

fn xml_out_string<T: ReadTxn>(txn: &T, n: &XmlOut) -> String {
    match n {
        XmlOut::Element(e) => e.get_string(txn),
        XmlOut::Fragment(f) => f.get_string(txn),
        XmlOut::Text(t) => t.get_string(txn),
    }
}

/// checks every live type of the document; returns number of types visited
pub fn check_reads<T: ReadTxn>(txn: &T, roots: &Roots, kind: OffsetKind, st: &mut CaseStats) -> Result<usize, Fail> {
    let all = targets(txn, roots);
    for tg in all.iter() {
        let at = format!("{:?}", tg.path);
        match &tg.out {
            Out::YText(t) => text_reads(txn, t, kind, &at)?,
            Out::YXmlText(t) => {
                // length / diff agreement; the rendered string of a formatted XML text carries tags
                let units = text_units(txn, t, 0);
                ensure!(t.len(txn) == units_width(&units, kind), "c17/text/len", "{}: xml text len() = {} but diff has width {}", at, t.len(txn), units_width(&units, kind));
                let plain = units.iter().all(|u| u.attrs.is_empty() && matches!(u.v, UnitV::Ch(_)));
                if plain {
                    let s: String = units.iter().filter_map(|u| if let UnitV::Ch(c) = u.v { Some(c) } else { None }).collect();
                    ensure!(t.get_string(txn) == s, "c17/xmltext/get_string", "{}: get_string {:?} != diff text {:?}", at, t.get_string(txn), s);
                }
                let _ = xml_attr_reads(txn, t, &at)?;
            }
            Out::YArray(a) => array_reads(txn, a, &at)?,
            Out::YMap(m) => map_reads(txn, m, &at)?,
            Out::YXmlFragment(f) => {
                let children = xml_children_reads(txn, f, Some(AsRef::<yrs::branch::Branch>::as_ref(f).id()), &at)?;
                let expect: String = children.iter().map(|c| xml_out_string(txn, c)).collect();
                ensure!(f.get_string(txn) == expect, "c17/xml/rendering", "{}: fragment renders {:?}, children render {:?}", at, f.get_string(txn), expect);
            }
            Out::YXmlElement(e) => {
                let children = xml_children_reads(txn, e, Some(AsRef::<yrs::branch::Branch>::as_ref(e).id()), &at)?;
                let attrs = xml_attr_reads(txn, e, &at)?;
                let inner: String = children.iter().map(|c| xml_out_string(txn, c)).collect();
                let s = e.get_string(txn);
                let tag = e.tag().to_string();
                let open = format!("<{}", tag);
                let close = format!("</{}>", tag);
                let ok = s.starts_with(&open) && s.ends_with(&close) && s.len() >= open.len() + close.len();
                ensure!(ok, "c17/xml/rendering", "{}: element renders {:?}", at, s);
                let middle = &s[open.len()..s.len() - close.len()];
                ensure!(middle.ends_with(&inner), "c17/xml/rendering", "{}: element renders {:?}, children render {:?}", at, s, inner);
                let head = &middle[..middle.len() - inner.len()];
                let mut total = 1;
                for (k, v) in attrs.iter() {
                    let tok = format!(" {}=\"{}\"", k, v);
                    total += tok.len();
                    ensure!(head.contains(&tok), "c17/xml/rendering", "{}: rendered head {:?} lacks attribute {:?}", at, head, tok);
                }
                ensure!(head.len() == total && head.ends_with('>'), "c17/xml/rendering", "{}: rendered head {:?} does not consist of the {} attributes", at, head, attrs.len());
            }
            _ => {}
        }
        st.hit("types_read");
    }
    Ok(all.len())
}

fn xml_attr_reads<T: ReadTxn, X: Xml>(txn: &T, x: &X, at: &str) -> Result<BTreeMap<String, String>, Fail> {
    let mut out = BTreeMap::new();
    for (k, v) in x.attributes(txn) {
        match x.get_attribute(txn, k) {
            Some(g) => ensure!(
                dump_out(txn, &g, 0) == dump_out(txn, &v, 0),
                "c17/xml/attribute",
                "{}: get_attribute({:?}) differs from the iterated value",
                at,
                k
            ),
            None => fail!("c17/xml/attribute", "{}: get_attribute({:?}) is None for an iterated attribute", at, k),
        }
        ensure!(out.insert(k.to_string(), format!("{}", v)).is_none(), "c17/xml/attribute", "{}: attribute {:?} iterated twice", at, k);
    }
    for k in crate::ops::XML_ATTR_KEYS.iter() {
        if !out.contains_key(*k) {
            ensure!(x.get_attribute(txn, k).is_none(), "c17/xml/attribute", "{}: get_attribute({:?}) finds a value that attributes() does not list", at, k);
        }
    }
    Ok(out)
}
