//! Reader for /verif/known_findings.json (never written at run time).

use serde::Deserialize;

#[derive(Debug, Clone, Deserialize)]
pub struct Finding {
    pub id: String,
    pub property: String,
    /// "known" or "fixed"
    pub status: String,
    #[serde(default)]
    pub signature: String,
    pub what: String,
    #[serde(default)]
    pub replay: Option<String>,
    #[serde(default)]
    pub commit: Option<String>,
}

#[derive(Debug, Clone, Default, Deserialize)]
pub struct Known {
    #[serde(default)]
    pub findings: Vec<Finding>,
}

impl Known {
    pub fn load() -> Known {
        let path = std::path::Path::new(crate::engine::VERIF_ROOT).join("known_findings.json");
        match std::fs::read(&path) {
            Ok(bytes) => serde_json::from_slice(&bytes).unwrap_or_else(|e| {
                eprintln!("known_findings.json unreadable: {}", e);
                Known::default()
            }),
            Err(_) => Known::default(),
        }
    }

    /// a failure signature is suppressed only by a `known` entry of the same property with
    /// exactly that signature; `fixed` entries suppress nothing.
    pub fn is_known(&self, property: &str, sig: &str) -> bool {
        self.findings
            .iter()
            .any(|f| f.status == "known" && f.property == property && f.signature == sig)
    }

    pub fn known_for(&self, property: &str) -> Vec<&Finding> {
        self.findings
            .iter()
            .filter(|f| f.status == "known" && f.property == property)
            .collect()
    }

    /// is a finding with this id listed as known (used for carve-outs by construction)?
    pub fn active(&self, id: &str) -> bool {
        self.findings
            .iter()
            .any(|f| f.status == "known" && f.id == id)
    }
}

static GLOBAL: std::sync::OnceLock<Known> = std::sync::OnceLock::new();

pub fn global() -> &'static Known {
    GLOBAL.get_or_init(Known::load)
}
