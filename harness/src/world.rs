//! Replicas, the registry of emitted updates, ground-truth bookkeeping of who has received what,
//! and transports (per-update v1/v2, merged in transit, state-vector sync).

use crate::dump::*;
use crate::engine::pick;
use crate::interp::*;
use crate::ops::*;
use proptest::prelude::*;
use serde::{Deserialize, Serialize};
use std::cell::RefCell;
use std::collections::BTreeSet;
use std::rc::Rc;
use yrs::updates::decoder::Decode;
use yrs::updates::encoder::Encode;
use yrs::{ClientID, Doc, OffsetKind, Options, ReadTxn, StateVector, Subscription, Transact, Update};

#[derive(Clone, Debug, PartialEq, Serialize, Deserialize)]
pub struct Cfg {
    pub client: u64,
    pub utf16: bool,
    pub skip_gc: bool,
    pub cleanup: bool,
}

impl Cfg {
    pub fn kind(&self) -> OffsetKind {
        if self.utf16 {
            OffsetKind::Utf16
        } else {
            OffsetKind::Bytes
        }
    }
    pub fn make_doc(&self) -> Doc {
        let mut o = Options::with_client_id(ClientID::new(self.client));
        o.offset_kind = self.kind();
        o.skip_gc = self.skip_gc;
        o.cleanup_formatting = self.cleanup;
        o.guid = "shared-doc".into();
        Doc::with_options(o)
    }
}

#[derive(Default)]
pub struct EvLog {
    pub v1: Vec<Vec<u8>>,
    pub v2: Vec<Vec<u8>>,
}

pub struct Replica {
    pub cfg: Cfg,
    pub doc: Doc,
    pub roots: Roots,
    /// updates (indices into `World::updates`) whose content this replica has been given
    pub received: BTreeSet<usize>,
    pub log: Rc<RefCell<EvLog>>,
    /// when set on a replica with automatic format clean-up, every applied update is also applied
    /// to a clean-up-free twin rebuilt from this replica's full state; the first difference of what
    /// the two show afterwards is kept here ("clean-up only removes marks that change nothing")
    pub twin_check: std::cell::Cell<bool>,
    pub twin_fail: RefCell<Option<String>>,
    _subs: Vec<Subscription>,
}

impl Replica {
    pub fn new(cfg: Cfg) -> Replica {
        let doc = cfg.make_doc();
        let roots = Roots::declare(&doc);
        let log = Rc::new(RefCell::new(EvLog::default()));
        let l1 = log.clone();
        let s1 = doc
            .observe_update_v1(move |_, e| l1.borrow_mut().v1.push(e.update.clone()))
            .expect("observe_update_v1");
        let l2 = log.clone();
        let s2 = doc
            .observe_update_v2(move |_, e| l2.borrow_mut().v2.push(e.update.clone()))
            .expect("observe_update_v2");
        Replica {
            cfg,
            doc,
            roots,
            received: BTreeSet::new(),
            log,
            twin_check: std::cell::Cell::new(false),
            twin_fail: RefCell::new(None),
            _subs: vec![s1, s2],
        }
    }

    pub fn dump(&self) -> Node {
        let txn = self.doc.transact();
        dump_doc(&txn, &self.roots)
    }

    pub fn sv(&self) -> StateVector {
        self.doc.transact().state_vector()
    }

    pub fn has_missing(&self) -> bool {
        self.doc.transact().has_missing_updates()
    }

    pub fn drain(&self) -> EvLog {
        std::mem::take(&mut *self.log.borrow_mut())
    }

    pub fn apply_v1(&self, bytes: &[u8]) -> Result<(), String> {
        let u = Update::decode_v1(bytes).map_err(|e| format!("decode_v1: {}", e))?;
        self.doc
            .transact_mut()
            .apply_update(u)
            .map_err(|e| format!("apply_update: {}", e))
    }

    pub fn apply_v2(&self, bytes: &[u8]) -> Result<(), String> {
        let u = Update::decode_v2(bytes).map_err(|e| format!("decode_v2: {}", e))?;
        self.doc
            .transact_mut()
            .apply_update(u)
            .map_err(|e| format!("apply_update: {}", e))
    }

    pub fn apply(&self, bytes: &[u8], v2: bool) -> Result<(), String> {
        let twin = if self.twin_check.get() && self.cfg.cleanup && self.twin_fail.borrow().is_none() { self.cleanup_free_twin() } else { None };
        let r = if v2 { self.apply_v2(bytes) } else { self.apply_v1(bytes) };
        if let (Some(t), Ok(())) = (twin, &r) {
            if t.apply(bytes, v2).is_ok() {
                let (a, b) = (self.dump(), t.dump());
                if a != b {
                    *self.twin_fail.borrow_mut() = Some(first_diff(&a, &b).unwrap_or_default());
                }
            }
        }
        r
    }

    /// a replica without format clean-up that holds exactly what this one holds (stash included)
    fn cleanup_free_twin(&self) -> Option<Replica> {
        // a stash travels inside of the full state as one merged update and may then be
        // integrated in a different grouping (finding G6): compare from gap-free states only
        if !self.gap_free() {
            return None;
        }
        let mut cfg = self.cfg.clone();
        cfg.cleanup = false;
        cfg.client = 9_998;
        let t = Replica::new(cfg);
        let state = self.doc.transact().encode_state_as_update_v1(&StateVector::default());
        t.apply_v1(&state).ok()?;
        // the twin has to start from what this replica shows, otherwise it proves nothing
        if t.dump() != self.dump() {
            return None;
        }
        Some(t)
    }

    /// no stash and no skipped ranges: everything this replica was given is integrated
    pub fn gap_free(&self) -> bool {
        let txn = self.doc.transact();
        !txn.has_missing_updates() && yrs::verif_hooks::store_skips(txn.store()).is_empty()
    }
}

pub struct UpdateRec {
    pub author: usize,
    pub v1: Vec<u8>,
    pub v2: Vec<u8>,
    /// ids inserted / deleted by this update (for coverage bookkeeping of relays)
    pub ins: yrs::IdSet,
    pub ds: yrs::IdSet,
    /// updates the author had received when it made this change (its causal past)
    pub deps: BTreeSet<usize>,
    pub ops: Vec<Resolved>,
}

pub struct World {
    pub reps: Vec<Replica>,
    pub updates: Vec<UpdateRec>,
    pub alloc: Alloc,
}

pub fn sv_to_vec(sv: &StateVector) -> Vec<(u64, u32)> {
    let mut v: Vec<(u64, u32)> = sv.iter().map(|(c, k)| (c.get(), *k)).filter(|(_, k)| *k > 0).collect();
    v.sort();
    v
}

impl World {
    pub fn new(cfgs: &[Cfg]) -> World {
        World {
            reps: cfgs.iter().cloned().map(Replica::new).collect(),
            updates: Vec::new(),
            alloc: Alloc::default(),
        }
    }

    /// One local transaction.  Returns the index of the registered update (if one was emitted).
    pub fn local(&mut self, r: usize, ops: &[Op]) -> (Vec<Resolved>, Option<usize>) {
        let kind = self.reps[r].cfg.kind();
        let done = {
            let rep = &self.reps[r];
            let mut txn = rep.doc.transact_mut();
            run_ops(&mut txn, &rep.roots, ops, &mut self.alloc, kind)
        };
        let idx = self.register_local(r, done.clone());
        (done, idx)
    }

    /// registers whatever the replica emitted since the last drain as one local update
    pub fn register_local(&mut self, r: usize, ops: Vec<Resolved>) -> Option<usize> {
        let ev = self.reps[r].drain();
        if ev.v1.is_empty() && ev.v2.is_empty() {
            return None;
        }
        // one transaction emits at most one event per encoding (C07 checks that); merge defensively
        let v1 = if ev.v1.len() == 1 { ev.v1[0].clone() } else { yrs::merge_updates_v1(&ev.v1).unwrap_or_default() };
        let v2 = if ev.v2.len() == 1 { ev.v2[0].clone() } else { yrs::merge_updates_v2(&ev.v2).unwrap_or_default() };
        let deps = self.reps[r].received.clone();
        let idx = self.updates.len();
        let (ins, ds) = match Update::decode_v1(&v1) {
            Ok(u) => (u.insertions(true), u.delete_set().clone()),
            Err(_) => (yrs::IdSet::new(), yrs::IdSet::new()),
        };
        self.updates.push(UpdateRec { author: r, v1, v2, ins, ds, deps, ops });
        self.reps[r].received.insert(idx);
        Some(idx)
    }

    pub fn deliver(&mut self, to: usize, idx: usize, v2: bool) -> Result<(), String> {
        let bytes = if v2 { &self.updates[idx].v2 } else { &self.updates[idx].v1 };
        self.reps[to].apply(bytes, v2)?;
        self.reps[to].received.insert(idx);
        self.reps[to].drain();
        Ok(())
    }

    pub fn merged_bytes(&self, idxs: &[usize], v2: bool) -> Result<Vec<u8>, String> {
        if v2 {
            let parts: Vec<&[u8]> = idxs.iter().map(|i| self.updates[*i].v2.as_slice()).collect();
            yrs::merge_updates_v2(&parts).map_err(|e| format!("merge_updates_v2: {}", e))
        } else {
            let parts: Vec<&[u8]> = idxs.iter().map(|i| self.updates[*i].v1.as_slice()).collect();
            yrs::merge_updates_v1(&parts).map_err(|e| format!("merge_updates_v1: {}", e))
        }
    }

    pub fn deliver_merged(&mut self, to: usize, idxs: &[usize], v2: bool) -> Result<(), String> {
        let bytes = self.merged_bytes(idxs, v2)?;
        self.reps[to].apply(&bytes, v2)?;
        for i in idxs {
            self.reps[to].received.insert(*i);
        }
        self.reps[to].drain();
        Ok(())
    }

    /// state-vector sync: `to` sends its state vector, `from` answers with the difference.
    /// Returns whether the sender was gap-free (only then is `received` credited).
    pub fn sync(&mut self, from: usize, to: usize, v2: bool) -> Result<bool, String> {
        let sv = self.reps[to].sv();
        let clean = self.reps[from].gap_free();
        let bytes = {
            let txn = self.reps[from].doc.transact();
            if v2 {
                txn.encode_state_as_update_v2(&sv)
            } else {
                txn.encode_state_as_update_v1(&sv)
            }
        };
        // what the receiver is given = what the payload carries (blocks incl. the sender's stash,
        // deletions) on top of what it already holds
        let (known_ins, known_ds) = {
            let txn = self.reps[to].doc.transact();
            let mut ins = yrs::IdSet::new();
            let mut ds = yrs::IdSet::new();
            for b in yrs::verif_hooks::store_blocks(txn.store()) {
                if b.kind != yrs::verif_hooks::BlockKind::Skip {
                    ins.insert(yrs::ID::new(b.client, b.clock), b.len);
                    if b.deleted {
                        ds.insert(yrs::ID::new(b.client, b.clock), b.len);
                    }
                }
            }
            (ins, ds)
        };
        let payload = if v2 { Update::decode_v2(&bytes) } else { Update::decode_v1(&bytes) }.map_err(|e| format!("sync payload does not decode (v2={}): {}", v2, e))?;
        let have_ins = known_ins.merge(&payload.insertions(true));
        let have_ds = known_ds.merge(payload.delete_set());
        self.reps[to].apply(&bytes, v2)?;
        for i in 0..self.updates.len() {
            if !self.reps[to].received.contains(&i) {
                let u = &self.updates[i];
                if u.ins.diff(&have_ins).is_empty() && u.ds.diff(&have_ds).is_empty() {
                    self.reps[to].received.insert(i);
                }
            }
        }
        self.reps[to].drain();
        Ok(clean)
    }

    /// updates `r` has not been given yet
    pub fn missing(&self, r: usize) -> Vec<usize> {
        (0..self.updates.len()).filter(|i| !self.reps[r].received.contains(i)).collect()
    }

    /// is the set down-closed under the recorded causal past?
    pub fn causally_closed(&self, set: &BTreeSet<usize>) -> bool {
        set.iter().all(|i| self.updates[*i].deps.is_subset(set))
    }

    /// join of the state vectors of all authors
    pub fn join_sv(&self) -> Vec<(u64, u32)> {
        let mut m = std::collections::BTreeMap::new();
        for r in self.reps.iter() {
            for (c, k) in sv_to_vec(&r.sv()) {
                let e = m.entry(c).or_insert(0);
                if k > *e {
                    *e = k;
                }
            }
        }
        m.into_iter().collect()
    }
}

// ------------------------------------------------------------------------------------------
// histories
// ------------------------------------------------------------------------------------------

#[derive(Clone, Debug, PartialEq, Serialize, Deserialize)]
pub enum Step {
    Local { r: u8, ops: Vec<Op> },
    /// deliver one update the receiver does not have yet (`which` picks among them)
    Deliver { to: u8, which: u16, v2: bool },
    /// deliver an update the receiver already has
    Dup { to: u8, which: u16, v2: bool },
    /// deliver several missing updates merged in transit
    Merge { to: u8, which: Vec<u16>, v2: bool },
    /// state-vector sync
    Sync { from: u8, to: u8, v2: bool },
}

#[derive(Clone, Debug, PartialEq, Serialize, Deserialize)]
pub struct History {
    pub cfgs: Vec<Cfg>,
    pub steps: Vec<Step>,
}

pub const CLIENT_POOLS: [[u64; 4]; 4] = [
    [1, 2, 3, 4],
    [4, 3, 2, 1],
    [(1u64 << 53) - 1, 1, 1u64 << 32, (1u64 << 32) + 1],
    [2, 7, 5, 3],
];

pub fn cfgs_strategy(n: std::ops::RangeInclusive<usize>, cleanup: bool) -> BoxedStrategy<Vec<Cfg>> {
    (0usize..CLIENT_POOLS.len(), prop::collection::vec((any::<bool>(), any::<bool>()), n))
        .prop_map(move |(pool, flags)| {
            flags
                .into_iter()
                .enumerate()
                .map(|(i, (utf16, skip_gc))| Cfg { client: CLIENT_POOLS[pool][i % 4] + (i / 4) as u64 * 100, utf16, skip_gc, cleanup })
                .collect()
        })
        .boxed()
}

#[derive(Clone, Debug)]
pub struct HistoryShape {
    pub replicas: std::ops::RangeInclusive<usize>,
    pub steps: std::ops::RangeInclusive<usize>,
    pub ops_per_txn: usize,
    pub w_local: u32,
    pub w_deliver: u32,
    pub w_dup: u32,
    pub w_merge: u32,
    pub w_sync: u32,
}

impl HistoryShape {
    pub fn default_for(tier: crate::engine::Tier) -> HistoryShape {
        HistoryShape {
            replicas: 2..=tier.pick(3, 4),
            steps: 4..=tier.pick(24, 40),
            ops_per_txn: 3,
            w_local: 10,
            w_deliver: 6,
            w_dup: 1,
            w_merge: 2,
            w_sync: 2,
        }
    }
}

pub fn step_strategy(p: &Profile, shape: &HistoryShape, nrep: usize) -> BoxedStrategy<Step> {
    let n = nrep as u8;
    let mut v: Vec<(u32, BoxedStrategy<Step>)> = vec![(shape.w_local, (0..n, txn_ops(p, shape.ops_per_txn)).prop_map(|(r, ops)| Step::Local { r, ops }).boxed())];
    if shape.w_deliver > 0 {
        v.push((shape.w_deliver, (0..n, any::<u16>(), any::<bool>()).prop_map(|(to, which, v2)| Step::Deliver { to, which, v2 }).boxed()));
    }
    if shape.w_dup > 0 {
        v.push((shape.w_dup, (0..n, any::<u16>(), any::<bool>()).prop_map(|(to, which, v2)| Step::Dup { to, which, v2 }).boxed()));
    }
    if shape.w_merge > 0 {
        v.push((
            shape.w_merge,
            (0..n, prop::collection::vec(any::<u16>(), 2..4), any::<bool>()).prop_map(|(to, which, v2)| Step::Merge { to, which, v2 }).boxed(),
        ));
    }
    if shape.w_sync > 0 {
        v.push((shape.w_sync, (0..n, 0..n, any::<bool>()).prop_map(|(from, to, v2)| Step::Sync { from, to, v2 }).boxed()));
    }
    proptest::strategy::Union::new_weighted(v).boxed()
}

pub fn history_strategy(p: Profile, shape: HistoryShape, cleanup: bool) -> BoxedStrategy<History> {
    cfgs_strategy(shape.replicas.clone(), cleanup)
        .prop_flat_map(move |cfgs| {
            let n = cfgs.len();
            (Just(cfgs), prop::collection::vec(step_strategy(&p, &shape, n), shape.steps.clone()))
        })
        .prop_map(|(cfgs, steps)| History { cfgs, steps })
        .boxed()
}

/// outcome of executing a transport step
#[derive(Debug, Clone, PartialEq)]
pub enum StepInfo {
    Local { update: Option<usize>, ops: usize },
    Delivered(Vec<usize>),
    Synced { clean: bool },
    Skipped,
}

impl World {
    /// Executes one step (selectors resolved against the current state).
    pub fn step(&mut self, s: &Step) -> Result<StepInfo, String> {
        let n = self.reps.len();
        match s {
            Step::Local { r, ops } => {
                let (done, idx) = self.local(*r as usize % n, ops);
                Ok(StepInfo::Local { update: idx, ops: done.len() })
            }
            Step::Deliver { to, which, v2 } => {
                let to = *to as usize % n;
                let miss = self.missing(to);
                if miss.is_empty() {
                    return Ok(StepInfo::Skipped);
                }
                let idx = miss[pick(*which, miss.len())];
                self.deliver(to, idx, *v2)?;
                Ok(StepInfo::Delivered(vec![idx]))
            }
            Step::Dup { to, which, v2 } => {
                let to = *to as usize % n;
                let have: Vec<usize> = self.reps[to].received.iter().copied().collect();
                if have.is_empty() {
                    return Ok(StepInfo::Skipped);
                }
                let idx = have[pick(*which, have.len())];
                self.deliver(to, idx, *v2)?;
                Ok(StepInfo::Delivered(vec![idx]))
            }
            Step::Merge { to, which, v2 } => {
                let to = *to as usize % n;
                let miss = self.missing(to);
                if miss.len() < 2 {
                    return Ok(StepInfo::Skipped);
                }
                let mut idxs: Vec<usize> = which.iter().map(|w| miss[pick(*w, miss.len())]).collect();
                idxs.dedup();
                self.deliver_merged(to, &idxs, *v2)?;
                Ok(StepInfo::Delivered(idxs))
            }
            Step::Sync { from, to, v2 } => {
                let from = *from as usize % n;
                let to = *to as usize % n;
                if from == to {
                    return Ok(StepInfo::Skipped);
                }
                let clean = self.sync(from, to, *v2)?;
                Ok(StepInfo::Synced { clean })
            }
        }
    }
}

pub fn encode_sv(sv: &StateVector) -> Vec<u8> {
    sv.encode_v1()
}
