//! Canonical observable dump of a document through the public read API.  Tombstones, block
//! boundaries, GC state and redundant format markers are invisible to it.

use crate::val::{attrs_to_sorted, AnyV};
use serde::Serialize;
use std::collections::BTreeMap;
use yrs::branch::BranchPtr;
use yrs::types::text::YChange;
use yrs::types::ToJson;
use yrs::{
    Array, ArrayRef, GetString, Map, MapRef, Out, ReadTxn, Text, TextRef, Xml, XmlElementRef,
    XmlFragment, XmlFragmentRef, XmlOut, XmlTextRef,
};

pub const ROOT_TEXT: &str = "text";
pub const ROOT_ARRAY: &str = "arr";
pub const ROOT_MAP: &str = "map";
pub const ROOT_XML: &str = "xml";

#[derive(Clone, Debug, PartialEq, Eq, Serialize)]
pub enum UnitV {
    Ch(char),
    Embed(Box<Node>),
}

#[derive(Clone, Debug, PartialEq, Eq, Serialize)]
pub struct Unit {
    pub v: UnitV,
    pub attrs: BTreeMap<String, AnyV>,
}

#[derive(Clone, Debug, PartialEq, Eq, Serialize)]
pub enum Node {
    Any(AnyV),
    Text(Vec<Unit>),
    Array(Vec<Node>),
    Map(BTreeMap<String, Node>),
    XmlElement {
        tag: String,
        attrs: BTreeMap<String, Node>,
        children: Vec<Node>,
    },
    XmlFragment(Vec<Node>),
    XmlText {
        attrs: BTreeMap<String, Node>,
        units: Vec<Unit>,
    },
    Doc(String),
    Weak(Vec<Node>),
    /// nested type shown by kind only (inside of weak links, to stay finite)
    Ref(&'static str),
    Undefined,
}

impl Node {
    pub fn short(&self) -> String {
        let s = serde_json::to_string(self).unwrap_or_default();
        if s.len() > 1500 {
            let mut cut = 1500;
            while !s.is_char_boundary(cut) {
                cut -= 1;
            }
            format!("{}…", &s[..cut])
        } else {
            s
        }
    }

    /// text content of a Text/XmlText node (embeds as U+FFFC)
    pub fn text_string(&self) -> String {
        let units = match self {
            Node::Text(u) => u,
            Node::XmlText { units, .. } => units,
            _ => return String::new(),
        };
        units
            .iter()
            .map(|u| match &u.v {
                UnitV::Ch(c) => *c,
                UnitV::Embed(_) => '\u{fffc}',
            })
            .collect()
    }
}

pub fn text_units<T: ReadTxn, X: Text>(txn: &T, text: &X, depth: u32) -> Vec<Unit> {
    let mut out = Vec::new();
    for d in text.diff(txn, YChange::identity) {
        let attrs = d
            .attributes
            .as_ref()
            .map(|a| attrs_to_sorted(a))
            .unwrap_or_default();
        match &d.insert {
            Out::Any(yrs::Any::String(s)) => {
                for c in s.chars() {
                    out.push(Unit {
                        v: UnitV::Ch(c),
                        attrs: attrs.clone(),
                    });
                }
            }
            other => out.push(Unit {
                v: UnitV::Embed(Box::new(dump_out(txn, other, depth + 1))),
                attrs,
            }),
        }
    }
    out
}

pub fn dump_array<T: ReadTxn>(txn: &T, a: &ArrayRef, depth: u32) -> Node {
    Node::Array(a.iter(txn).map(|o| dump_out(txn, &o, depth + 1)).collect())
}

pub fn dump_map<T: ReadTxn>(txn: &T, m: &MapRef, depth: u32) -> Node {
    let mut out = BTreeMap::new();
    for (k, v) in m.iter(txn) {
        out.insert(k.to_string(), dump_out(txn, &v, depth + 1));
    }
    Node::Map(out)
}

fn xml_attrs<T: ReadTxn, X: Xml>(txn: &T, x: &X, depth: u32) -> BTreeMap<String, Node> {
    let mut out = BTreeMap::new();
    for (k, v) in x.attributes(txn) {
        out.insert(k.to_string(), dump_out(txn, &v, depth + 1));
    }
    out
}

fn xml_children<T: ReadTxn, X: XmlFragment>(txn: &T, x: &X, depth: u32) -> Vec<Node> {
    x.children(txn).map(|c| dump_xml(txn, &c, depth + 1)).collect()
}

pub fn dump_xml<T: ReadTxn>(txn: &T, x: &XmlOut, depth: u32) -> Node {
    match x {
        XmlOut::Element(e) => dump_xml_element(txn, e, depth),
        XmlOut::Fragment(f) => Node::XmlFragment(xml_children(txn, f, depth)),
        XmlOut::Text(t) => Node::XmlText {
            attrs: xml_attrs(txn, t, depth),
            units: text_units(txn, t, depth),
        },
    }
}

pub fn dump_xml_element<T: ReadTxn>(txn: &T, e: &XmlElementRef, depth: u32) -> Node {
    Node::XmlElement {
        tag: e.try_tag().map(|t| t.to_string()).unwrap_or_default(),
        attrs: xml_attrs(txn, e, depth),
        children: xml_children(txn, e, depth),
    }
}

pub fn dump_out<T: ReadTxn>(txn: &T, out: &Out, depth: u32) -> Node {
    if depth > 40 {
        return Node::Ref("too-deep");
    }
    match out {
        Out::Any(a) => Node::Any(AnyV::norm_any(a)),
        Out::YText(t) => Node::Text(text_units(txn, t, depth)),
        Out::YArray(a) => dump_array(txn, a, depth),
        Out::YMap(m) => dump_map(txn, m, depth),
        Out::YXmlElement(e) => dump_xml_element(txn, e, depth),
        Out::YXmlFragment(f) => Node::XmlFragment(xml_children(txn, f, depth)),
        Out::YXmlText(t) => Node::XmlText {
            attrs: xml_attrs(txn, t, depth),
            units: text_units(txn, t, depth),
        },
        Out::YDoc(d) => Node::Doc(d.guid().to_string()),
        Out::YWeakLink(w) => dump_weak(txn, w),
        Out::UndefinedRef(_) => Node::Undefined,
    }
}

fn shallow<T: ReadTxn>(txn: &T, out: &Out) -> Node {
    match out {
        Out::Any(a) => Node::Any(AnyV::norm_any(a)),
        Out::YText(t) => Node::Any(AnyV::Str(t.get_string(txn))),
        Out::YArray(_) => Node::Ref("array"),
        Out::YMap(_) => Node::Ref("map"),
        Out::YXmlElement(_) => Node::Ref("xml-element"),
        Out::YXmlFragment(_) => Node::Ref("xml-fragment"),
        Out::YXmlText(t) => Node::Any(AnyV::Str(t.get_string(txn))),
        Out::YDoc(d) => Node::Doc(d.guid().to_string()),
        Out::YWeakLink(_) => Node::Ref("weak"),
        Out::UndefinedRef(_) => Node::Undefined,
    }
}

pub fn dump_weak<T: ReadTxn>(txn: &T, w: &yrs::WeakRef<BranchPtr>) -> Node {
    // a link to a map entry dereferences to one value, a quotation to a list of values
    let source = match w.try_source() {
        Some(s) => s,
        None => return Node::Weak(vec![]),
    };
    if source.is_single() {
        let typed: yrs::WeakRef<MapRef> = yrs::WeakRef::from(w.clone());
        match typed.try_deref_value(txn) {
            Some(v) => Node::Weak(vec![shallow(txn, &v)]),
            None => Node::Weak(vec![]),
        }
    } else {
        let typed: yrs::WeakRef<ArrayRef> = yrs::WeakRef::from(w.clone());
        Node::Weak(typed.unquote(txn).map(|o| shallow(txn, &o)).collect())
    }
}

/// The four root types every replica of the harness declares.
#[derive(Clone)]
pub struct Roots {
    pub text: TextRef,
    pub arr: ArrayRef,
    pub map: MapRef,
    pub xml: XmlFragmentRef,
}

impl Roots {
    pub fn declare(doc: &yrs::Doc) -> Roots {
        Roots {
            text: doc.get_or_insert_text(ROOT_TEXT),
            arr: doc.get_or_insert_array(ROOT_ARRAY),
            map: doc.get_or_insert_map(ROOT_MAP),
            xml: doc.get_or_insert_xml_fragment(ROOT_XML),
        }
    }
}

/// dump of the whole document = map root-name → node
pub fn dump_doc<T: ReadTxn>(txn: &T, roots: &Roots) -> Node {
    let mut m = BTreeMap::new();
    m.insert(ROOT_TEXT.to_string(), Node::Text(text_units(txn, &roots.text, 0)));
    m.insert(ROOT_ARRAY.to_string(), dump_array(txn, &roots.arr, 0));
    m.insert(ROOT_MAP.to_string(), dump_map(txn, &roots.map, 0));
    m.insert(
        ROOT_XML.to_string(),
        Node::XmlFragment(xml_children(txn, &roots.xml, 0)),
    );
    Node::Map(m)
}

/// first difference between two dumps, as a path and the two sub-values
pub fn first_diff(a: &Node, b: &Node) -> Option<String> {
    fn go(a: &Node, b: &Node, path: &mut Vec<String>) -> Option<String> {
        if a == b {
            return None;
        }
        match (a, b) {
            (Node::Map(x), Node::Map(y)) => {
                for k in x.keys().chain(y.keys()) {
                    match (x.get(k), y.get(k)) {
                        (Some(p), Some(q)) => {
                            path.push(k.clone());
                            if let Some(d) = go(p, q, path) {
                                return Some(d);
                            }
                            path.pop();
                        }
                        (p, q) => {
                            return Some(format!(
                                "at /{}/{}: {} vs {}",
                                path.join("/"),
                                k,
                                p.map(|n| n.short()).unwrap_or("<absent>".into()),
                                q.map(|n| n.short()).unwrap_or("<absent>".into())
                            ))
                        }
                    }
                }
                None
            }
            (Node::Array(x), Node::Array(y)) | (Node::XmlFragment(x), Node::XmlFragment(y)) if x.len() == y.len() => {
                for (i, (p, q)) in x.iter().zip(y.iter()).enumerate() {
                    path.push(i.to_string());
                    if let Some(d) = go(p, q, path) {
                        return Some(d);
                    }
                    path.pop();
                }
                None
            }
            _ => Some(format!("at /{}: {} vs {}", path.join("/"), a.short(), b.short())),
        }
    }
    go(a, b, &mut Vec::new())
}

/// JSON view of the array (used by read-path agreement checks)
pub fn array_json_len<T: ReadTxn>(txn: &T, a: &ArrayRef) -> Option<usize> {
    match a.to_json(txn) {
        yrs::Any::Array(v) => Some(v.len()),
        _ => None,
    }
}
