//! Interpreter: resolves an `Op` against a replica's current state into a concrete operation
//! (`COp`) on a concrete target path, applies it through the public yrs API, and can apply the
//! same concrete operation to the reference model (a `dump::Node` tree).

use crate::dump::*;
use crate::engine::frac;
use crate::ops::*;
use crate::val::AnyV;
use serde::Serialize;
use std::collections::{BTreeMap, HashMap};
use std::sync::Arc;
use yrs::types::text::YChange;
use yrs::types::{Attrs, Delta};
use yrs::{
    Any, Array, ArrayPrelim, ArrayRef, ClientID, Doc, In, Map, MapPrelim, MapRef, OffsetKind,
    Options, Out, ReadTxn, Text, TextPrelim, TextRef, TransactionMut, Xml, XmlElementPrelim,
    XmlFragment, XmlFragmentPrelim, XmlOut, XmlTextPrelim,
};

#[derive(Clone, Debug, PartialEq, Eq, Serialize)]
pub enum Seg {
    Root(&'static str),
    Idx(usize),
    Key(String),
}

#[derive(Clone, Copy, Debug, PartialEq, Eq)]
pub enum TKind {
    Text,
    XmlText,
    Array,
    Map,
    XmlFragment,
    XmlElement,
}

#[derive(Clone)]
pub struct Target {
    pub kind: TKind,
    pub path: Vec<Seg>,
    pub out: Out,
    pub depth: u32,
}

/// allocator of globally unique elements (shared by all replicas of one case)
#[derive(Default, Clone, Debug)]
pub struct Alloc {
    pub next: u32,
}

impl Alloc {
    pub fn int(&mut self) -> i64 {
        self.next += 1;
        self.next as i64
    }
    pub fn ch(&mut self, class: u8) -> char {
        self.next += 1;
        let n = self.next;
        const ASCII: &[u8] = b"abcdefghijklmnopqrstuvwxyzABCDEFGHIJKLMNOPQRSTUVWXYZ0123456789";
        match class % 4 {
            0 if (n as usize) <= ASCII.len() => ASCII[n as usize - 1] as char,
            0 | 1 => char::from_u32(0x100 + n).unwrap_or('?'),
            2 => char::from_u32(0x4e00 + n).unwrap_or('?'),
            _ => char::from_u32(0x1F300 + n).unwrap_or('?'),
        }
    }
    pub fn string(&mut self, s: &StrSpec) -> String {
        match s {
            StrSpec::Lit(s) => s.clone(),
            StrSpec::Uniq { n, class } => (0..(*n).max(1)).map(|_| self.ch(*class)).collect(),
        }
    }
    pub fn tag(&mut self, class: u8) -> String {
        self.next += 1;
        if class % 2 == 0 {
            format!("t{}", self.next)
        } else {
            format!("тег{}", self.next)
        }
    }
}

#[derive(Clone, Debug, PartialEq, Serialize)]
pub enum CNest {
    Text(String),
    Array(Vec<i64>),
    Map(Vec<(String, i64)>),
    XmlElement(String),
    XmlText(String),
    XmlFragment,
    Doc(String),
}

#[derive(Clone, Debug, PartialEq, Serialize)]
pub enum CVal {
    Any(AnyV),
    Nested(CNest),
}

#[derive(Clone, Debug, PartialEq, Serialize)]
pub enum CXml {
    Elem(String),
    Text(String),
    Frag,
}

pub type CAttrs = BTreeMap<String, Option<AnyV>>;

#[derive(Clone, Debug, PartialEq, Serialize)]
pub enum CDelta {
    Retain(usize, Option<CAttrs>),
    Insert(String, Option<CAttrs>),
    Embed(AnyV, Option<CAttrs>),
    Delete(usize),
}

/// Concrete operation: indices/lengths are counted in units (characters or embeds) or elements.
#[derive(Clone, Debug, PartialEq, Serialize)]
pub enum COp {
    TextInsert { idx: usize, s: String, attrs: Option<CAttrs>, push: bool },
    TextEmbed { idx: usize, v: CVal, attrs: Option<CAttrs> },
    TextFormat { idx: usize, len: usize, attrs: CAttrs },
    TextRemove { idx: usize, len: usize },
    TextDelta { ops: Vec<CDelta> },
    /// via: 0 insert/insert_range, 1 push_back, 2 push_front
    ArrInsert { idx: usize, vals: Vec<CVal>, via: u8 },
    ArrRemove { idx: usize, len: usize },
    MapSet { key: String, v: CVal },
    MapTryUpdate { key: String, v: AnyV },
    MapGetOrInit { key: String, kind: u8 },
    MapRemove { key: String },
    MapClear,
    XmlInsert { idx: usize, node: CXml },
    XmlRemove { idx: usize, len: usize },
    XmlSetAttr { key: String, v: AnyV },
    XmlRemoveAttr { key: String },
}

#[derive(Clone, Debug, Serialize)]
pub struct Resolved {
    pub path: Vec<Seg>,
    pub cop: COp,
    #[serde(skip)]
    pub target: Option<Out>,
}

// ------------------------------------------------------------------------------------------
// target enumeration
// ------------------------------------------------------------------------------------------

fn collect<T: ReadTxn>(txn: &T, out: &Out, path: &mut Vec<Seg>, depth: u32, acc: &mut Vec<Target>) {
    if depth > 12 {
        return;
    }
    match out {
        Out::YText(t) => {
            acc.push(Target { kind: TKind::Text, path: path.clone(), out: out.clone(), depth });
            collect_text(txn, t, path, depth, acc);
        }
        Out::YXmlText(t) => {
            acc.push(Target { kind: TKind::XmlText, path: path.clone(), out: out.clone(), depth });
            collect_text(txn, t, path, depth, acc);
        }
        Out::YArray(a) => {
            acc.push(Target { kind: TKind::Array, path: path.clone(), out: out.clone(), depth });
            for (i, v) in a.iter(txn).enumerate() {
                if !matches!(v, Out::Any(_)) {
                    path.push(Seg::Idx(i));
                    collect(txn, &v, path, depth + 1, acc);
                    path.pop();
                }
            }
        }
        Out::YMap(m) => {
            acc.push(Target { kind: TKind::Map, path: path.clone(), out: out.clone(), depth });
            let mut entries: Vec<(String, Out)> = m.iter(txn).map(|(k, v)| (k.to_string(), v)).collect();
            entries.sort_by(|a, b| a.0.cmp(&b.0));
            for (k, v) in entries {
                if !matches!(v, Out::Any(_)) {
                    path.push(Seg::Key(k));
                    collect(txn, &v, path, depth + 1, acc);
                    path.pop();
                }
            }
        }
        Out::YXmlFragment(f) => {
            acc.push(Target { kind: TKind::XmlFragment, path: path.clone(), out: out.clone(), depth });
            collect_xml_children(txn, f, path, depth, acc);
        }
        Out::YXmlElement(e) => {
            acc.push(Target { kind: TKind::XmlElement, path: path.clone(), out: out.clone(), depth });
            collect_xml_children(txn, e, path, depth, acc);
        }
        _ => {}
    }
}

fn collect_text<T: ReadTxn, X: Text>(txn: &T, t: &X, path: &mut Vec<Seg>, depth: u32, acc: &mut Vec<Target>) {
    let mut idx = 0usize;
    for d in t.diff(txn, YChange::identity) {
        match &d.insert {
            Out::Any(Any::String(s)) => idx += s.chars().count(),
            Out::Any(_) => idx += 1,
            other => {
                path.push(Seg::Idx(idx));
                collect(txn, other, path, depth + 1, acc);
                path.pop();
                idx += 1;
            }
        }
    }
}

fn xml_to_out(x: XmlOut) -> Out {
    match x {
        XmlOut::Element(e) => Out::YXmlElement(e),
        XmlOut::Fragment(f) => Out::YXmlFragment(f),
        XmlOut::Text(t) => Out::YXmlText(t),
    }
}

fn collect_xml_children<T: ReadTxn, X: XmlFragment>(txn: &T, x: &X, path: &mut Vec<Seg>, depth: u32, acc: &mut Vec<Target>) {
    for (i, c) in x.children(txn).enumerate() {
        path.push(Seg::Idx(i));
        collect(txn, &xml_to_out(c), path, depth + 1, acc);
        path.pop();
    }
}

/// all live shared types of the document in deterministic DFS order (roots first in fixed order)
pub fn targets<T: ReadTxn>(txn: &T, roots: &Roots) -> Vec<Target> {
    let mut acc = Vec::new();
    let mut path = vec![Seg::Root(ROOT_TEXT)];
    collect(txn, &Out::YText(roots.text.clone()), &mut path, 0, &mut acc);
    path = vec![Seg::Root(ROOT_ARRAY)];
    collect(txn, &Out::YArray(roots.arr.clone()), &mut path, 0, &mut acc);
    path = vec![Seg::Root(ROOT_MAP)];
    collect(txn, &Out::YMap(roots.map.clone()), &mut path, 0, &mut acc);
    path = vec![Seg::Root(ROOT_XML)];
    collect(txn, &Out::YXmlFragment(roots.xml.clone()), &mut path, 0, &mut acc);
    acc
}

// ------------------------------------------------------------------------------------------
// units and offsets
// ------------------------------------------------------------------------------------------

pub fn unit_width(u: &UnitV, kind: OffsetKind) -> u32 {
    match u {
        UnitV::Ch(c) => match kind {
            OffsetKind::Bytes => c.len_utf8() as u32,
            OffsetKind::Utf16 => c.len_utf16() as u32,
        },
        UnitV::Embed(_) => 1,
    }
}

pub fn units_width(units: &[Unit], kind: OffsetKind) -> u32 {
    units.iter().map(|u| unit_width(&u.v, kind)).sum()
}

pub fn str_width(s: &str, kind: OffsetKind) -> u32 {
    match kind {
        OffsetKind::Bytes => s.len() as u32,
        OffsetKind::Utf16 => s.encode_utf16().count() as u32,
    }
}

fn out_units<T: ReadTxn>(txn: &T, out: &Out) -> Vec<Unit> {
    match out {
        Out::YText(t) => text_units(txn, t, 0),
        Out::YXmlText(t) => text_units(txn, t, 0),
        _ => vec![],
    }
}

// ------------------------------------------------------------------------------------------
// resolution
// ------------------------------------------------------------------------------------------

fn cattrs(a: &AttrSpec, keep_null: bool) -> CAttrs {
    let mut m = CAttrs::new();
    for (k, v) in a.0.iter() {
        let key = ATTR_KEYS[(*k as usize) % ATTR_KEYS.len()].to_string();
        match v {
            None if !keep_null => {}
            other => {
                m.insert(key, other.clone());
            }
        }
    }
    m
}

fn cnest(n: &Nest, alloc: &mut Alloc) -> CNest {
    match n {
        Nest::Text(s) => CNest::Text(alloc.string(s)),
        Nest::Array(k) => CNest::Array((0..*k).map(|_| alloc.int()).collect()),
        Nest::Map(keys) => {
            let mut seen = Vec::new();
            for k in keys {
                let key = MAP_KEYS[(*k as usize) % MAP_KEYS.len()].to_string();
                if !seen.iter().any(|(x, _): &(String, i64)| *x == key) {
                    seen.push((key, alloc.int()));
                }
            }
            CNest::Map(seen)
        }
        Nest::XmlElement(c) => CNest::XmlElement(alloc.tag(*c)),
        Nest::XmlText(s) => CNest::XmlText(alloc.string(s)),
        Nest::XmlFragment => CNest::XmlFragment,
        Nest::Doc(g) => CNest::Doc(format!("sub-{}", g)),
    }
}

fn cval(v: &Val, alloc: &mut Alloc) -> CVal {
    match v {
        Val::Any(a) => CVal::Any(a.clone()),
        Val::Uniq => CVal::Any(AnyV::num(alloc.int() as f64)),
        Val::Nested(n) => CVal::Nested(cnest(n, alloc)),
    }
}

fn pick_target<'a>(all: &'a [Target], kinds: &[TKind], sel: u16) -> Option<&'a Target> {
    let cands: Vec<&Target> = all.iter().filter(|t| kinds.contains(&t.kind)).collect();
    if cands.is_empty() {
        None
    } else {
        Some(cands[crate::engine::pick(sel, cands.len())])
    }
}

const TEXTS: [TKind; 2] = [TKind::Text, TKind::XmlText];
const XML_CONTAINERS: [TKind; 2] = [TKind::XmlFragment, TKind::XmlElement];
const XML_ATTRS: [TKind; 2] = [TKind::XmlElement, TKind::XmlText];

/// maximal nesting depth at which new nested types are still created
pub const MAX_NEST_DEPTH: u32 = 3;

/// Resolves `op` against the current state. `None` = the op has no valid target in this state
/// (e.g. attribute op but no element exists) and is skipped.
/// the shared type a path leads to
pub fn follow<T: ReadTxn>(txn: &T, roots: &Roots, path: &[Seg]) -> Option<Out> {
    targets(txn, roots).into_iter().find(|t| t.path == path).map(|t| t.out)
}

pub fn resolve<T: ReadTxn>(txn: &T, roots: &Roots, op: &Op, alloc: &mut Alloc) -> Option<Resolved> {
    let all = targets(txn, roots);
    let done = |t: &Target, cop: COp| Some(Resolved { path: t.path.clone(), cop, target: Some(t.out.clone()) });
    let flatten = |v: CVal, depth: u32, alloc: &mut Alloc| -> CVal {
        // do not nest deeper than MAX_NEST_DEPTH: replace by a plain unique value
        if depth >= MAX_NEST_DEPTH {
            if let CVal::Nested(_) = v {
                return CVal::Any(AnyV::num(alloc.int() as f64));
            }
        }
        v
    };
    match op {
        Op::TextInsert { t, pos, s, attrs } => {
            let tg = pick_target(&all, &TEXTS, *t)?;
            let n = out_units(txn, &tg.out).len();
            let s = alloc.string(s);
            if s.is_empty() {
                return None;
            }
            done(tg, COp::TextInsert { idx: frac(*pos, n), s, attrs: attrs.as_ref().map(|a| cattrs(a, false)), push: false })
        }
        Op::TextPush { t, s } => {
            let tg = pick_target(&all, &TEXTS, *t)?;
            let n = out_units(txn, &tg.out).len();
            let s = alloc.string(s);
            if s.is_empty() {
                return None;
            }
            done(tg, COp::TextInsert { idx: n, s, attrs: None, push: true })
        }
        Op::TextEmbed { t, pos, v, attrs } => {
            let tg = pick_target(&all, &TEXTS, *t)?;
            let n = out_units(txn, &tg.out).len();
            let v = flatten(cval(v, alloc), tg.depth, alloc);
            // xml nodes / sub-documents are not embedded into text by this language
            let v = match v {
                CVal::Nested(CNest::XmlElement(_)) | CVal::Nested(CNest::XmlText(_)) | CVal::Nested(CNest::XmlFragment) | CVal::Nested(CNest::Doc(_)) => {
                    CVal::Any(AnyV::num(alloc.int() as f64))
                }
                CVal::Any(AnyV::Str(s)) => CVal::Any(AnyV::Map([("s".to_string(), AnyV::Str(s))].into_iter().collect())),
                other => other,
            };
            done(tg, COp::TextEmbed { idx: frac(*pos, n), v, attrs: attrs.as_ref().map(|a| cattrs(a, false)) })
        }
        Op::TextFormat { t, pos, len, attrs } => {
            let tg = pick_target(&all, &TEXTS, *t)?;
            let n = out_units(txn, &tg.out).len();
            let idx = frac(*pos, n);
            let l = frac(*len, n - idx);
            if l == 0 {
                return None;
            }
            done(tg, COp::TextFormat { idx, len: l, attrs: cattrs(attrs, true) })
        }
        Op::TextRemove { t, pos, len } => {
            let tg = pick_target(&all, &TEXTS, *t)?;
            let n = out_units(txn, &tg.out).len();
            if n == 0 {
                return None;
            }
            let idx = frac(*pos, n - 1);
            let l = 1 + frac(*len, n - idx - 1).min(4);
            done(tg, COp::TextRemove { idx, len: l })
        }
        Op::TextDelta { t, delta } => {
            let tg = pick_target(&all, &TEXTS, *t)?;
            let mut remaining = out_units(txn, &tg.out).len();
            let mut ops = Vec::new();
            for d in delta {
                match d {
                    DeltaOp::Retain(n, a) => {
                        let k = frac(*n, remaining);
                        if k > 0 {
                            remaining -= k;
                            ops.push(CDelta::Retain(k, a.as_ref().map(|a| cattrs(a, true))));
                        }
                    }
                    DeltaOp::Insert(s, a) => {
                        let s = alloc.string(s);
                        if !s.is_empty() {
                            ops.push(CDelta::Insert(s, a.as_ref().map(|a| cattrs(a, false))));
                        }
                    }
                    DeltaOp::Embed(v, a) => {
                        let v = match v {
                            AnyV::Str(s) => AnyV::Map([("s".to_string(), AnyV::Str(s.clone()))].into_iter().collect()),
                            other => other.clone(),
                        };
                        ops.push(CDelta::Embed(v, a.as_ref().map(|a| cattrs(a, false))));
                    }
                    DeltaOp::Delete(n) => {
                        let k = frac(*n, remaining).min(3);
                        if k > 0 {
                            remaining -= k;
                            ops.push(CDelta::Delete(k));
                        }
                    }
                }
            }
            if ops.is_empty() {
                return None;
            }
            done(tg, COp::TextDelta { ops })
        }
        Op::ArrInsert { a, pos, vals } => {
            let tg = pick_target(&all, &[TKind::Array], *a)?;
            let n = array_len(txn, &tg.out);
            let vals: Vec<CVal> = vals.iter().map(|v| flatten(cval(v, alloc), tg.depth, alloc)).collect();
            // insert_range only takes primitive values: a batch with a nested value inserts that value alone
            let vals = if vals.len() > 1 && vals.iter().any(|v| matches!(v, CVal::Nested(_))) {
                vec![vals.into_iter().find(|v| matches!(v, CVal::Nested(_))).unwrap()]
            } else {
                vals
            };
            done(tg, COp::ArrInsert { idx: frac(*pos, n), vals, via: 0 })
        }
        Op::ArrPushBack { a, v } => {
            let tg = pick_target(&all, &[TKind::Array], *a)?;
            let n = array_len(txn, &tg.out);
            let v = flatten(cval(v, alloc), tg.depth, alloc);
            done(tg, COp::ArrInsert { idx: n, vals: vec![v], via: 1 })
        }
        Op::ArrPushFront { a, v } => {
            let tg = pick_target(&all, &[TKind::Array], *a)?;
            let v = flatten(cval(v, alloc), tg.depth, alloc);
            done(tg, COp::ArrInsert { idx: 0, vals: vec![v], via: 2 })
        }
        Op::ArrRemove { a, pos, len } => {
            let tg = pick_target(&all, &[TKind::Array], *a)?;
            let n = array_len(txn, &tg.out);
            if n == 0 {
                return None;
            }
            let idx = frac(*pos, n - 1);
            let l = 1 + frac(*len, n - idx - 1).min(3);
            done(tg, COp::ArrRemove { idx, len: l })
        }
        Op::MapSet { m, key, v } => {
            let tg = pick_target(&all, &[TKind::Map], *m)?;
            let v = flatten(cval(v, alloc), tg.depth, alloc);
            done(tg, COp::MapSet { key: MAP_KEYS[(*key as usize) % MAP_KEYS.len()].to_string(), v })
        }
        Op::MapTryUpdate { m, key, v } => {
            let tg = pick_target(&all, &[TKind::Map], *m)?;
            done(tg, COp::MapTryUpdate { key: MAP_KEYS[(*key as usize) % MAP_KEYS.len()].to_string(), v: v.clone() })
        }
        Op::MapGetOrInit { m, key, kind } => {
            let tg = pick_target(&all, &[TKind::Map], *m)?;
            if tg.depth >= MAX_NEST_DEPTH {
                return None;
            }
            done(tg, COp::MapGetOrInit { key: MAP_KEYS[(*key as usize) % MAP_KEYS.len()].to_string(), kind: *kind % 3 })
        }
        Op::MapRemove { m, key } => {
            let tg = pick_target(&all, &[TKind::Map], *m)?;
            done(tg, COp::MapRemove { key: MAP_KEYS[(*key as usize) % MAP_KEYS.len()].to_string() })
        }
        Op::MapClear { m } => {
            let tg = pick_target(&all, &[TKind::Map], *m)?;
            done(tg, COp::MapClear)
        }
        Op::XmlInsert { x, pos, node } => {
            let tg = pick_target(&all, &XML_CONTAINERS, *x)?;
            let n = xml_len(txn, &tg.out);
            let node = match node {
                XmlNode::Elem(c) if tg.depth < MAX_NEST_DEPTH + 1 => CXml::Elem(alloc.tag(*c)),
                XmlNode::Frag if tg.depth < MAX_NEST_DEPTH => CXml::Frag,
                XmlNode::Text(s) => CXml::Text(alloc.string(s)),
                _ => CXml::Text(alloc.string(&StrSpec::Uniq { n: 1, class: 0 })),
            };
            done(tg, COp::XmlInsert { idx: frac(*pos, n), node })
        }
        Op::XmlRemove { x, pos, len } => {
            let tg = pick_target(&all, &XML_CONTAINERS, *x)?;
            let n = xml_len(txn, &tg.out);
            if n == 0 {
                return None;
            }
            let idx = frac(*pos, n - 1);
            let l = 1 + frac(*len, n - idx - 1).min(2);
            done(tg, COp::XmlRemove { idx, len: l })
        }
        Op::XmlSetAttr { x, key, v } => {
            let tg = pick_target(&all, &XML_ATTRS, *x)?;
            done(tg, COp::XmlSetAttr { key: XML_ATTR_KEYS[(*key as usize) % XML_ATTR_KEYS.len()].to_string(), v: v.clone() })
        }
        Op::XmlRemoveAttr { x, key } => {
            let tg = pick_target(&all, &XML_ATTRS, *x)?;
            done(tg, COp::XmlRemoveAttr { key: XML_ATTR_KEYS[(*key as usize) % XML_ATTR_KEYS.len()].to_string() })
        }
    }
}

fn array_len<T: ReadTxn>(txn: &T, out: &Out) -> usize {
    match out {
        Out::YArray(a) => a.len(txn) as usize,
        _ => 0,
    }
}

fn xml_len<T: ReadTxn>(txn: &T, out: &Out) -> usize {
    match out {
        Out::YXmlFragment(f) => f.len(txn) as usize,
        Out::YXmlElement(e) => e.len(txn) as usize,
        _ => 0,
    }
}

// ------------------------------------------------------------------------------------------
// application through the yrs API
// ------------------------------------------------------------------------------------------

pub fn to_attrs(a: &CAttrs) -> Attrs {
    let mut m: Attrs = HashMap::new();
    for (k, v) in a.iter() {
        m.insert(Arc::from(k.as_str()), v.as_ref().map(|v| v.to_any()).unwrap_or(Any::Null));
    }
    m
}

pub fn sub_doc(guid: &str) -> Doc {
    let mut o = Options::with_guid_and_client_id(Arc::from(guid), ClientID::new(900_000 + guid.len() as u64));
    o.should_load = false;
    Doc::with_options(o)
}

pub fn nest_to_in(n: &CNest) -> In {
    match n {
        CNest::Text(s) => In::Text(TextPrelim::new(s.clone()).into()),
        CNest::Array(v) => In::Array(v.iter().map(|i| In::Any(Any::Number(*i as f64))).collect::<ArrayPrelim>()),
        CNest::Map(kv) => In::Map(kv.iter().map(|(k, i)| (k.clone(), In::Any(Any::Number(*i as f64)))).collect::<MapPrelim>()),
        CNest::XmlElement(tag) => In::XmlElement(XmlElementPrelim::empty(tag.clone())),
        CNest::XmlText(s) => In::XmlText(XmlTextPrelim::new(s.clone()).into()),
        CNest::XmlFragment => In::XmlFragment(XmlFragmentPrelim::default()),
        CNest::Doc(g) => In::Doc(sub_doc(g)),
    }
}

pub fn cval_to_in(v: &CVal) -> In {
    match v {
        CVal::Any(a) => In::Any(a.to_any()),
        CVal::Nested(n) => nest_to_in(n),
    }
}

fn text_apply<X: Text>(txn: &mut TransactionMut, x: &X, units: &[Unit], cop: &COp, kind: OffsetKind) {
    match cop {
        COp::TextInsert { idx, s, attrs, push } => {
            let off = units_width(&units[..*idx], kind);
            match attrs {
                None if *push => x.push(txn, s),
                None => x.insert(txn, off, s),
                Some(a) => x.insert_with_attributes(txn, off, s, to_attrs(a)),
            }
        }
        COp::TextEmbed { idx, v, attrs } => {
            let off = units_width(&units[..*idx], kind);
            match (v, attrs) {
                (CVal::Any(a), None) => {
                    x.insert_embed(txn, off, a.to_any());
                }
                (CVal::Any(a), Some(at)) => {
                    x.insert_embed_with_attributes(txn, off, a.to_any(), to_attrs(at));
                }
                (CVal::Nested(n), at) => {
                    let at = at.as_ref().map(to_attrs);
                    match n {
                        CNest::Text(s) => match at {
                            None => {
                                x.insert_embed(txn, off, TextPrelim::new(s.clone()));
                            }
                            Some(at) => {
                                x.insert_embed_with_attributes(txn, off, TextPrelim::new(s.clone()), at);
                            }
                        },
                        CNest::Array(v) => {
                            let p: ArrayPrelim = v.iter().map(|i| In::Any(Any::Number(*i as f64))).collect();
                            match at {
                                None => {
                                    x.insert_embed(txn, off, p);
                                }
                                Some(at) => {
                                    x.insert_embed_with_attributes(txn, off, p, at);
                                }
                            }
                        }
                        CNest::Map(kv) => {
                            let p: MapPrelim = kv.iter().map(|(k, i)| (k.clone(), In::Any(Any::Number(*i as f64)))).collect();
                            match at {
                                None => {
                                    x.insert_embed(txn, off, p);
                                }
                                Some(at) => {
                                    x.insert_embed_with_attributes(txn, off, p, at);
                                }
                            }
                        }
                        _ => unreachable!("resolve() never embeds this kind"),
                    }
                }
            }
        }
        COp::TextFormat { idx, len, attrs } => {
            let off = units_width(&units[..*idx], kind);
            let l = units_width(&units[*idx..*idx + *len], kind);
            x.format(txn, off, l, to_attrs(attrs));
        }
        COp::TextRemove { idx, len } => {
            let off = units_width(&units[..*idx], kind);
            let l = units_width(&units[*idx..*idx + *len], kind);
            x.remove_range(txn, off, l);
        }
        COp::TextDelta { ops } => {
            let mut cursor = 0usize;
            let mut delta: Vec<Delta<In>> = Vec::new();
            for d in ops {
                match d {
                    CDelta::Retain(n, a) => {
                        let l = units_width(&units[cursor..cursor + n], kind);
                        cursor += n;
                        delta.push(Delta::Retain(l, a.as_ref().map(|a| Box::new(to_attrs(a)))));
                    }
                    CDelta::Insert(s, a) => {
                        delta.push(Delta::Inserted(In::Any(Any::String(Arc::from(s.as_str()))), a.as_ref().map(|a| Box::new(to_attrs(a)))));
                    }
                    CDelta::Embed(v, a) => {
                        delta.push(Delta::Inserted(In::Any(v.to_any()), a.as_ref().map(|a| Box::new(to_attrs(a)))));
                    }
                    CDelta::Delete(n) => {
                        let l = units_width(&units[cursor..cursor + n], kind);
                        cursor += n;
                        delta.push(Delta::Deleted(l));
                    }
                }
            }
            x.apply_delta(txn, delta);
        }
        _ => unreachable!(),
    }
}

fn xml_container_apply<X: XmlFragment>(txn: &mut TransactionMut, x: &X, cop: &COp) {
    match cop {
        COp::XmlInsert { idx, node } => match node {
            CXml::Elem(tag) => {
                x.insert(txn, *idx as u32, XmlElementPrelim::empty(tag.clone()));
            }
            CXml::Text(s) => {
                x.insert(txn, *idx as u32, XmlTextPrelim::new(s.clone()));
            }
            CXml::Frag => {
                x.insert(txn, *idx as u32, yrs::types::xml::XmlIn::Fragment(XmlFragmentPrelim::default()));
            }
        },
        COp::XmlRemove { idx, len } => {
            if *len == 1 {
                x.remove(txn, *idx as u32)
            } else {
                x.remove_range(txn, *idx as u32, *len as u32)
            }
        }
        _ => unreachable!(),
    }
}

fn xml_attr_apply<X: Xml>(txn: &mut TransactionMut, x: &X, cop: &COp) {
    match cop {
        COp::XmlSetAttr { key, v } => {
            x.insert_attribute(txn, key.clone(), v.to_any());
        }
        COp::XmlRemoveAttr { key } => x.remove_attribute(txn, key),
        _ => unreachable!(),
    }
}

/// Result of get_or_init / try_update / remove that the model must predict too.
#[derive(Clone, Debug, PartialEq)]
pub enum Ret {
    None,
    Bool(bool),
    Removed(Option<Node>),
}

pub fn apply_real(txn: &mut TransactionMut, r: &Resolved, kind: OffsetKind) -> Ret {
    let out = r.target.as_ref().expect("resolved target");
    match (&r.cop, out) {
        (COp::TextInsert { .. } | COp::TextEmbed { .. } | COp::TextFormat { .. } | COp::TextRemove { .. } | COp::TextDelta { .. }, Out::YText(t)) => {
            let units = text_units(txn, t, 0);
            text_apply(txn, t, &units, &r.cop, kind);
            Ret::None
        }
        (COp::TextInsert { .. } | COp::TextEmbed { .. } | COp::TextFormat { .. } | COp::TextRemove { .. } | COp::TextDelta { .. }, Out::YXmlText(t)) => {
            let units = text_units(txn, t, 0);
            text_apply(txn, t, &units, &r.cop, kind);
            Ret::None
        }
        (COp::ArrInsert { idx, vals, via }, Out::YArray(a)) => {
            match via {
                1 => {
                    if let CVal::Nested(CNest::Doc(g)) = &vals[0] {
                        a.push_back(txn, sub_doc(g));
                    } else {
                        a.push_back(txn, cval_to_in(&vals[0]));
                    }
                }
                2 => {
                    if let CVal::Nested(CNest::Doc(g)) = &vals[0] {
                        a.push_front(txn, sub_doc(g));
                    } else {
                        a.push_front(txn, cval_to_in(&vals[0]));
                    }
                }
                _ => {
                    if let [CVal::Nested(CNest::Doc(g))] = vals.as_slice() {
                        a.insert(txn, *idx as u32, sub_doc(g));
                    } else if vals.len() == 1 {
                        a.insert(txn, *idx as u32, cval_to_in(&vals[0]));
                    } else {
                        let anys: Vec<Any> = vals
                            .iter()
                            .map(|v| match v {
                                CVal::Any(a) => a.to_any(),
                                _ => Any::Null,
                            })
                            .collect();
                        a.insert_range(txn, *idx as u32, anys);
                    }
                }
            }
            Ret::None
        }
        (COp::ArrRemove { idx, len }, Out::YArray(a)) => {
            if *len == 1 {
                a.remove(txn, *idx as u32);
            } else {
                a.remove_range(txn, *idx as u32, *len as u32);
            }
            Ret::None
        }
        (COp::MapSet { key, v }, Out::YMap(m)) => {
            if let CVal::Nested(CNest::Doc(g)) = v {
                // sub-documents are inserted as `Doc` preliminaries (the documented way)
                m.insert(txn, key.clone(), sub_doc(g));
            } else {
                m.insert(txn, key.clone(), cval_to_in(v));
            }
            Ret::None
        }
        (COp::MapTryUpdate { key, v }, Out::YMap(m)) => Ret::Bool(m.try_update(txn, key.clone(), v.to_any())),
        (COp::MapGetOrInit { key, kind: k }, Out::YMap(m)) => {
            match k {
                0 => {
                    let _: TextRef = m.get_or_init(txn, key.clone());
                }
                1 => {
                    let _: ArrayRef = m.get_or_init(txn, key.clone());
                }
                _ => {
                    let _: MapRef = m.get_or_init(txn, key.clone());
                }
            }
            Ret::None
        }
        (COp::MapRemove { key }, Out::YMap(m)) => {
            let removed = m.remove(txn, key);
            Ret::Removed(removed.map(|o| dump_out(txn, &o, 0)))
        }
        (COp::MapClear, Out::YMap(m)) => {
            m.clear(txn);
            Ret::None
        }
        (COp::XmlInsert { .. } | COp::XmlRemove { .. }, Out::YXmlFragment(f)) => {
            xml_container_apply(txn, f, &r.cop);
            Ret::None
        }
        (COp::XmlInsert { .. } | COp::XmlRemove { .. }, Out::YXmlElement(e)) => {
            xml_container_apply(txn, e, &r.cop);
            Ret::None
        }
        (COp::XmlSetAttr { .. } | COp::XmlRemoveAttr { .. }, Out::YXmlElement(e)) => {
            xml_attr_apply(txn, e, &r.cop);
            Ret::None
        }
        (COp::XmlSetAttr { .. } | COp::XmlRemoveAttr { .. }, Out::YXmlText(t)) => {
            xml_attr_apply(txn, t, &r.cop);
            Ret::None
        }
        (cop, _) => panic!("harness: op {:?} resolved to a target of the wrong kind", cop),
    }
}

// ------------------------------------------------------------------------------------------
// application to the reference model
// ------------------------------------------------------------------------------------------

fn navigate<'a>(root: &'a mut Node, path: &[Seg]) -> Option<&'a mut Node> {
    let mut cur = root;
    for seg in path {
        cur = match (cur, seg) {
            (Node::Map(m), Seg::Root(name)) => m.get_mut(*name)?,
            (Node::Map(m), Seg::Key(k)) => m.get_mut(k)?,
            (Node::Array(v), Seg::Idx(i)) => v.get_mut(*i)?,
            (Node::XmlFragment(v), Seg::Idx(i)) => v.get_mut(*i)?,
            (Node::XmlElement { children, .. }, Seg::Idx(i)) => children.get_mut(*i)?,
            (Node::Text(units), Seg::Idx(i)) | (Node::XmlText { units, .. }, Seg::Idx(i)) => match &mut units.get_mut(*i)?.v {
                UnitV::Embed(n) => n.as_mut(),
                _ => return None,
            },
            _ => return None,
        };
    }
    Some(cur)
}

fn model_units(n: &mut Node) -> Option<&mut Vec<Unit>> {
    match n {
        Node::Text(u) => Some(u),
        Node::XmlText { units, .. } => Some(units),
        _ => None,
    }
}

fn model_children(n: &mut Node) -> Option<&mut Vec<Node>> {
    match n {
        Node::XmlFragment(c) => Some(c),
        Node::XmlElement { children, .. } => Some(children),
        _ => None,
    }
}

fn model_xml_attrs(n: &mut Node) -> Option<&mut BTreeMap<String, Node>> {
    match n {
        Node::XmlElement { attrs, .. } => Some(attrs),
        Node::XmlText { attrs, .. } => Some(attrs),
        _ => None,
    }
}

fn plain_units(s: &str, attrs: &BTreeMap<String, AnyV>) -> Vec<Unit> {
    s.chars().map(|c| Unit { v: UnitV::Ch(c), attrs: attrs.clone() }).collect()
}

fn exact_attrs(a: &CAttrs) -> BTreeMap<String, AnyV> {
    a.iter().filter_map(|(k, v)| v.as_ref().map(|v| (k.clone(), v.norm()))).filter(|(_, v)| *v != AnyV::Null).collect()
}

pub fn nest_node(n: &CNest) -> Node {
    match n {
        CNest::Text(s) => Node::Text(plain_units(s, &BTreeMap::new())),
        CNest::Array(v) => Node::Array(v.iter().map(|i| Node::Any(AnyV::num(*i as f64))).collect()),
        CNest::Map(kv) => Node::Map(kv.iter().map(|(k, i)| (k.clone(), Node::Any(AnyV::num(*i as f64)))).collect()),
        CNest::XmlElement(tag) => Node::XmlElement { tag: tag.clone(), attrs: BTreeMap::new(), children: vec![] },
        CNest::XmlText(s) => Node::XmlText { attrs: BTreeMap::new(), units: plain_units(s, &BTreeMap::new()) },
        CNest::XmlFragment => Node::XmlFragment(vec![]),
        CNest::Doc(g) => Node::Doc(g.clone()),
    }
}

pub fn cval_node(v: &CVal) -> Node {
    match v {
        CVal::Any(a) => Node::Any(a.norm()),
        CVal::Nested(n) => nest_node(n),
    }
}

fn apply_format(units: &mut [Unit], attrs: &CAttrs) {
    for u in units.iter_mut() {
        for (k, v) in attrs.iter() {
            match v {
                None => {
                    u.attrs.remove(k);
                }
                Some(AnyV::Null) => {
                    u.attrs.remove(k);
                }
                Some(v) => {
                    u.attrs.insert(k.clone(), v.norm());
                }
            }
        }
    }
}

/// Applies the concrete op to the model; returns the predicted return value.
pub fn apply_model(model: &mut Node, r: &Resolved) -> Result<Ret, String> {
    let node = navigate(model, &r.path).ok_or_else(|| format!("model has no node at {:?}", r.path))?;
    match &r.cop {
        COp::TextInsert { idx, s, attrs, .. } => {
            let units = model_units(node).ok_or("not a text")?;
            let a = match attrs {
                Some(a) => exact_attrs(a),
                None => {
                    if *idx > 0 {
                        units[*idx - 1].attrs.clone()
                    } else {
                        BTreeMap::new()
                    }
                }
            };
            let new = plain_units(s, &a);
            units.splice(*idx..*idx, new);
            Ok(Ret::None)
        }
        COp::TextEmbed { idx, v, attrs } => {
            let units = model_units(node).ok_or("not a text")?;
            let a = match attrs {
                Some(a) => exact_attrs(a),
                None => {
                    if *idx > 0 {
                        units[*idx - 1].attrs.clone()
                    } else {
                        BTreeMap::new()
                    }
                }
            };
            units.insert(*idx, Unit { v: UnitV::Embed(Box::new(cval_node(v))), attrs: a });
            Ok(Ret::None)
        }
        COp::TextFormat { idx, len, attrs } => {
            let units = model_units(node).ok_or("not a text")?;
            apply_format(&mut units[*idx..*idx + *len], attrs);
            Ok(Ret::None)
        }
        COp::TextRemove { idx, len } => {
            let units = model_units(node).ok_or("not a text")?;
            units.drain(*idx..*idx + *len);
            Ok(Ret::None)
        }
        COp::TextDelta { ops } => {
            let units = model_units(node).ok_or("not a text")?;
            let mut cursor = 0usize;
            for d in ops {
                match d {
                    CDelta::Retain(n, a) => {
                        if let Some(a) = a {
                            apply_format(&mut units[cursor..cursor + n], a);
                        }
                        cursor += n;
                    }
                    CDelta::Insert(s, a) => {
                        let at = a.as_ref().map(exact_attrs).unwrap_or_default();
                        let new = plain_units(s, &at);
                        let k = new.len();
                        units.splice(cursor..cursor, new);
                        cursor += k;
                    }
                    CDelta::Embed(v, a) => {
                        let at = a.as_ref().map(exact_attrs).unwrap_or_default();
                        units.insert(cursor, Unit { v: UnitV::Embed(Box::new(Node::Any(v.norm()))), attrs: at });
                        cursor += 1;
                    }
                    CDelta::Delete(n) => {
                        units.drain(cursor..cursor + n);
                    }
                }
            }
            Ok(Ret::None)
        }
        COp::ArrInsert { idx, vals, .. } => {
            let Node::Array(v) = node else { return Err("not an array".into()) };
            let new: Vec<Node> = vals.iter().map(cval_node).collect();
            v.splice(*idx..*idx, new);
            Ok(Ret::None)
        }
        COp::ArrRemove { idx, len } => {
            let Node::Array(v) = node else { return Err("not an array".into()) };
            v.drain(*idx..*idx + *len);
            Ok(Ret::None)
        }
        COp::MapSet { key, v } => {
            let Node::Map(m) = node else { return Err("not a map".into()) };
            m.insert(key.clone(), cval_node(v));
            Ok(Ret::None)
        }
        COp::MapTryUpdate { key, v } => {
            let Node::Map(m) = node else { return Err("not a map".into()) };
            if let Some(Node::Any(cur)) = m.get(key) {
                if *cur == v.norm() {
                    return Ok(Ret::Bool(false));
                }
            }
            m.insert(key.clone(), Node::Any(v.norm()));
            Ok(Ret::Bool(true))
        }
        COp::MapGetOrInit { key, kind } => {
            let Node::Map(m) = node else { return Err("not a map".into()) };
            let keep = match (m.get(key), kind) {
                (Some(Node::Text(_)), 0) => true,
                (Some(Node::Array(_)), 1) => true,
                (Some(Node::Map(_)), 2) => true,
                _ => false,
            };
            if !keep {
                let fresh = match kind {
                    0 => Node::Text(vec![]),
                    1 => Node::Array(vec![]),
                    _ => Node::Map(BTreeMap::new()),
                };
                m.insert(key.clone(), fresh);
            }
            Ok(Ret::None)
        }
        COp::MapRemove { key } => {
            let Node::Map(m) = node else { return Err("not a map".into()) };
            Ok(Ret::Removed(m.remove(key)))
        }
        COp::MapClear => {
            let Node::Map(m) = node else { return Err("not a map".into()) };
            m.clear();
            Ok(Ret::None)
        }
        COp::XmlInsert { idx, node: n } => {
            let c = model_children(node).ok_or("not an xml container")?;
            let new = match n {
                CXml::Elem(tag) => Node::XmlElement { tag: tag.clone(), attrs: BTreeMap::new(), children: vec![] },
                CXml::Text(s) => Node::XmlText { attrs: BTreeMap::new(), units: plain_units(s, &BTreeMap::new()) },
                CXml::Frag => Node::XmlFragment(vec![]),
            };
            c.insert(*idx, new);
            Ok(Ret::None)
        }
        COp::XmlRemove { idx, len } => {
            let c = model_children(node).ok_or("not an xml container")?;
            c.drain(*idx..*idx + *len);
            Ok(Ret::None)
        }
        COp::XmlSetAttr { key, v } => {
            let a = model_xml_attrs(node).ok_or("no xml attributes")?;
            a.insert(key.clone(), Node::Any(v.norm()));
            Ok(Ret::None)
        }
        COp::XmlRemoveAttr { key } => {
            let a = model_xml_attrs(node).ok_or("no xml attributes")?;
            a.remove(key);
            Ok(Ret::None)
        }
    }
}

pub fn empty_model() -> Node {
    let mut m = BTreeMap::new();
    m.insert(ROOT_TEXT.to_string(), Node::Text(vec![]));
    m.insert(ROOT_ARRAY.to_string(), Node::Array(vec![]));
    m.insert(ROOT_MAP.to_string(), Node::Map(BTreeMap::new()));
    m.insert(ROOT_XML.to_string(), Node::XmlFragment(vec![]));
    Node::Map(m)
}

/// Resolves and applies a list of ops inside of an open transaction; returns what was applied.
pub fn run_ops(txn: &mut TransactionMut, roots: &Roots, ops: &[Op], alloc: &mut Alloc, kind: OffsetKind) -> Vec<Resolved> {
    let mut done = Vec::new();
    for op in ops {
        if let Some(r) = resolve(txn, roots, op, alloc) {
            apply_real(txn, &r, kind);
            done.push(r);
        }
    }
    done
}
