//! The C API of y-crdt, compiled from `/repo/yffi/src/lib.rs` into this crate and driven the way a
//! C program drives it: only through the exported `extern "C"` functions and the `#[repr(C)]`
//! structures of the generated header (`tests-ffi/include/libyrs.h`).

#[allow(warnings)]
#[path = "/repo/yffi/src/lib.rs"]
pub mod yffi;

use crate::interp::{CAttrs, CDelta, CNest, CVal, CXml, COp, Seg};
use crate::val::AnyV;
use std::collections::BTreeMap;
use std::ffi::{c_char, CStr, CString};
use std::ptr::{null, null_mut};
use yffi::*;
use yrs::OffsetKind;

pub type BranchP = *mut Branch;
pub type TxnP = *mut Transaction;

/// Mirror of the `YOutput` cell as the C header declares it (the union is public there).
#[repr(C)]
pub union OutVal {
    pub flag: u8,
    pub num: f64,
    pub integer: i64,
    pub str_: *mut c_char,
    pub buf: *const c_char,
    pub array: *mut YOutput,
    pub map: *mut YMapEntry,
    pub y_type: *mut Branch,
    pub y_doc: *mut Doc,
}

#[repr(C)]
pub struct OutMirror {
    pub tag: i8,
    pub len: u32,
    pub value: OutVal,
}

/// What an output cell holds, read the way a C client reads it.
#[derive(Clone, Debug, PartialEq)]
pub enum COut {
    Any(AnyV),
    /// shared type: tag and branch
    Shared(i8, BranchP),
    /// sub-document: its guid (the handle inside of the cell dies with the cell)
    Doc(String),
    /// a cell no reader function accepts
    Unreadable(i8),
}

pub unsafe fn c_string(p: *mut c_char) -> Option<String> {
    if p.is_null() {
        return None;
    }
    let s = CStr::from_ptr(p).to_str().expect("C API returned invalid UTF-8").to_string();
    ystring_destroy(p);
    Some(s)
}

/// reads a cell without consuming it
pub unsafe fn read_out(o: *const YOutput) -> COut {
    let tag = (*o).tag;
    let len = (*o).len as usize;
    match tag {
        Y_JSON_NULL => COut::Any(AnyV::Null),
        Y_JSON_UNDEF => COut::Any(AnyV::Undef),
        Y_JSON_BOOL => {
            let p = youtput_read_bool(o);
            assert!(!p.is_null());
            COut::Any(AnyV::Bool(*p != 0))
        }
        Y_JSON_NUM => {
            let p = youtput_read_float(o);
            assert!(!p.is_null());
            COut::Any(AnyV::Num((*p).to_bits()))
        }
        Y_JSON_INT => {
            let p = youtput_read_long(o);
            assert!(!p.is_null());
            COut::Any(AnyV::Int(*p))
        }
        Y_JSON_STR => {
            let p = youtput_read_string(o);
            assert!(!p.is_null());
            COut::Any(AnyV::Str(CStr::from_ptr(p).to_str().expect("utf8").to_string()))
        }
        Y_JSON_BUF => {
            let p = youtput_read_binary(o);
            assert!(!p.is_null() || len == 0);
            let s = if len == 0 { &[][..] } else { std::slice::from_raw_parts(p as *const u8, len) };
            COut::Any(AnyV::Buf(s.to_vec()))
        }
        Y_JSON_ARR => {
            let p = youtput_read_json_array(o);
            let mut v = Vec::new();
            for i in 0..len {
                match read_out(p.add(i)) {
                    COut::Any(a) => v.push(a),
                    other => panic!("non-JSON cell inside of a JSON array: {:?}", other),
                }
            }
            COut::Any(AnyV::Arr(v))
        }
        Y_JSON_MAP => {
            let p = youtput_read_json_map(o);
            let mut m = BTreeMap::new();
            for i in 0..len {
                let e = p.add(i);
                let k = CStr::from_ptr((*e).key).to_str().expect("utf8").to_string();
                match read_out((*e).value) {
                    COut::Any(a) => {
                        m.insert(k, a);
                    }
                    other => panic!("non-JSON cell inside of a JSON map: {:?}", other),
                }
            }
            COut::Any(AnyV::Map(m))
        }
        Y_ARRAY => COut::Shared(tag, youtput_read_yarray(o)),
        Y_MAP => COut::Shared(tag, youtput_read_ymap(o)),
        Y_TEXT => COut::Shared(tag, youtput_read_ytext(o)),
        Y_XML_ELEM => COut::Shared(tag, youtput_read_yxmlelem(o)),
        Y_XML_TEXT => COut::Shared(tag, youtput_read_yxmltext(o)),
        Y_WEAK_LINK => COut::Shared(tag, youtput_read_yweak(o)),
        Y_DOC => {
            let d = youtput_read_ydoc(o);
            assert!(!d.is_null());
            COut::Doc(c_string(ydoc_guid(d)).unwrap_or_default())
        }
        // no reader function: a C client reads the union member the header documents
        Y_XML_FRAG | Y_UNDEFINED => COut::Shared(tag, (*(o as *const OutMirror)).value.y_type),
        other => COut::Unreadable(other),
    }
}

/// reads and releases a heap cell returned by a getter (null = no value)
pub unsafe fn take_out(o: *mut YOutput) -> Option<COut> {
    if o.is_null() {
        return None;
    }
    let r = read_out(o);
    youtput_destroy(o);
    Some(r)
}

/// Keeps everything an input cell points to alive until the call is over.
#[derive(Default)]
pub struct Arena {
    strings: Vec<CString>,
    cells: Vec<Box<[YInput]>>,
    keys: Vec<Box<[*mut c_char]>>,
    bufs: Vec<Box<[u8]>>,
    pub docs: Vec<*mut Doc>,
}

impl Arena {
    pub fn cstr(&mut self, s: &str) -> *mut c_char {
        let c = CString::new(s).expect("harness: string with NUL reached the C boundary");
        let p = c.as_ptr() as *mut c_char;
        self.strings.push(c);
        p
    }

    fn cells(&mut self, v: Vec<YInput>) -> *mut YInput {
        let mut b = v.into_boxed_slice();
        let p = b.as_mut_ptr();
        self.cells.push(b);
        p
    }

    fn key_ptrs(&mut self, v: Vec<*mut c_char>) -> *mut *mut c_char {
        let mut b = v.into_boxed_slice();
        let p = b.as_mut_ptr();
        self.keys.push(b);
        p
    }

    pub unsafe fn any(&mut self, v: &AnyV) -> YInput {
        match v {
            AnyV::Null => yinput_null(),
            AnyV::Undef => yinput_undefined(),
            AnyV::Bool(b) => yinput_bool(if *b { Y_TRUE } else { Y_FALSE }),
            AnyV::Num(bits) => yinput_float(f64::from_bits(*bits)),
            AnyV::Int(i) => yinput_long(*i),
            AnyV::Str(s) => {
                let p = self.cstr(s);
                yinput_string(p)
            }
            AnyV::Buf(b) => {
                let bx: Box<[u8]> = b.clone().into_boxed_slice();
                let p = bx.as_ptr() as *const c_char;
                let len = bx.len() as u32;
                self.bufs.push(bx);
                yinput_binary(p, len)
            }
            AnyV::Arr(a) => {
                let mut cells = Vec::with_capacity(a.len());
                for x in a {
                    cells.push(self.any(x));
                }
                let len = cells.len() as u32;
                let p = self.cells(cells);
                yinput_json_array(p, len)
            }
            AnyV::Map(m) => {
                let mut keys = Vec::with_capacity(m.len());
                let mut cells = Vec::with_capacity(m.len());
                for (k, x) in m {
                    keys.push(self.cstr(k));
                    cells.push(self.any(x));
                }
                let len = cells.len() as u32;
                let kp = self.key_ptrs(keys);
                let vp = self.cells(cells);
                yinput_json_map(kp, vp, len)
            }
        }
    }

    /// formatting attributes: a JSON map cell; a removed attribute is a null value
    pub unsafe fn attrs(&mut self, a: &CAttrs) -> *const YInput {
        let mut keys = Vec::with_capacity(a.len());
        let mut cells = Vec::with_capacity(a.len());
        for (k, x) in a {
            keys.push(self.cstr(k));
            cells.push(match x {
                Some(v) => self.any(v),
                None => yinput_null(),
            });
        }
        let len = cells.len() as u32;
        let kp = self.key_ptrs(keys);
        let vp = self.cells(cells);
        let cell = yinput_json_map(kp, vp, len);
        self.cells(vec![cell]) as *const YInput
    }

    pub unsafe fn opt_attrs(&mut self, a: &Option<CAttrs>) -> *const YInput {
        match a {
            Some(a) => self.attrs(a),
            None => null(),
        }
    }

    pub unsafe fn nest(&mut self, n: &CNest) -> YInput {
        match n {
            CNest::Text(s) => {
                let p = self.cstr(s);
                yinput_ytext(p)
            }
            CNest::Array(v) => {
                let cells: Vec<YInput> = v.iter().map(|i| yinput_float(*i as f64)).collect();
                let len = cells.len() as u32;
                let p = self.cells(cells);
                yinput_yarray(p, len)
            }
            CNest::Map(kv) => {
                let mut keys = Vec::new();
                let mut cells = Vec::new();
                for (k, i) in kv {
                    keys.push(self.cstr(k));
                    cells.push(yinput_float(*i as f64));
                }
                let len = cells.len() as u32;
                let kp = self.key_ptrs(keys);
                let vp = self.cells(cells);
                yinput_ymap(kp, vp, len)
            }
            CNest::XmlElement(tag) => {
                let p = self.cstr(tag);
                yinput_yxmlelem(p)
            }
            CNest::XmlText(s) => {
                let p = self.cstr(s);
                yinput_yxmltext(p)
            }
            CNest::XmlFragment => panic!("harness: the C API has no input cell for an XML fragment"),
            CNest::Doc(g) => {
                let d = c_sub_doc(self, g);
                yinput_ydoc(d)
            }
        }
    }

    pub unsafe fn cval(&mut self, v: &CVal) -> YInput {
        match v {
            CVal::Any(a) => self.any(a),
            CVal::Nested(n) => self.nest(n),
        }
    }

    pub unsafe fn cell_ptr(&mut self, c: YInput) -> *const YInput {
        self.cells(vec![c]) as *const YInput
    }

    /// sub-document handles created for input cells stay owned by the caller
    pub unsafe fn release_docs(&mut self) {
        for d in self.docs.drain(..) {
            ydoc_destroy(d);
        }
    }
}

/// the C counterpart of `interp::sub_doc`
pub unsafe fn c_sub_doc(arena: &mut Arena, guid: &str) -> *mut Doc {
    let g = arena.cstr(guid);
    let o = YOptions { id: 900_000 + guid.len() as u64, guid: g, collection_id: null(), flags: Y_OFFSET_BYTES };
    let d = ydoc_new_with_options(o);
    arena.docs.push(d);
    d
}

/// A document that is only ever touched through the C API.
pub struct CDoc {
    pub doc: *mut Doc,
    pub text: BranchP,
    pub arr: BranchP,
    pub map: BranchP,
    pub xml: BranchP,
    pub kind: OffsetKind,
}

impl CDoc {
    pub unsafe fn new(client: u64, utf16: bool, skip_gc: bool, cleanup: bool) -> CDoc {
        let mut arena = Arena::default();
        let guid = arena.cstr(&format!("doc-{}", client));
        let mut flags = if utf16 { Y_OFFSET_UTF16 } else { Y_OFFSET_BYTES };
        if skip_gc {
            flags |= Y_SKIP_GC;
        }
        if cleanup {
            flags |= Y_CLEANUP_FMT;
        }
        flags |= Y_SHOULD_LOAD;
        let doc = ydoc_new_with_options(YOptions { id: client, guid, collection_id: null(), flags });
        let text = ytext(doc, arena.cstr(crate::dump::ROOT_TEXT));
        let arr = yarray(doc, arena.cstr(crate::dump::ROOT_ARRAY));
        let map = ymap(doc, arena.cstr(crate::dump::ROOT_MAP));
        let xml = yxmlfragment(doc, arena.cstr(crate::dump::ROOT_XML));
        CDoc { doc, text, arr, map, xml, kind: if utf16 { OffsetKind::Utf16 } else { OffsetKind::Bytes } }
    }

    pub unsafe fn write(&self) -> TxnP {
        let t = ydoc_write_transaction(self.doc, 0, null());
        assert!(!t.is_null(), "harness: could not open a write transaction");
        t
    }

    pub unsafe fn write_with(&self, origin: &[u8]) -> TxnP {
        let t = ydoc_write_transaction(self.doc, origin.len() as u32, origin.as_ptr() as *const c_char);
        assert!(!t.is_null(), "harness: could not open a write transaction");
        t
    }

    pub unsafe fn read(&self) -> TxnP {
        let t = ydoc_read_transaction(self.doc);
        assert!(!t.is_null(), "harness: could not open a read transaction");
        t
    }

    pub fn root(&self, name: &str) -> BranchP {
        match name {
            crate::dump::ROOT_TEXT => self.text,
            crate::dump::ROOT_ARRAY => self.arr,
            crate::dump::ROOT_MAP => self.map,
            crate::dump::ROOT_XML => self.xml,
            other => panic!("harness: unknown root {}", other),
        }
    }
}

impl Drop for CDoc {
    fn drop(&mut self) {
        unsafe { ydoc_destroy(self.doc) }
    }
}

/// One chunk of a text as `ytext_chunks` reports it.
#[derive(Clone, Debug, PartialEq)]
pub struct CChunk {
    pub data: COut,
    pub fmt: BTreeMap<String, AnyV>,
}

pub unsafe fn text_chunks(txt: BranchP, txn: TxnP) -> Vec<CChunk> {
    let mut len = 0u32;
    let p = ytext_chunks(txt, txn, &mut len);
    let mut out = Vec::new();
    for i in 0..len as usize {
        let c = p.add(i);
        let data = read_out(&(*c).data);
        let mut fmt = BTreeMap::new();
        for j in 0..(*c).fmt_len as usize {
            let e = (*c).fmt.add(j);
            let k = CStr::from_ptr((*e).key).to_str().expect("utf8").to_string();
            match read_out((*e).value) {
                COut::Any(a) => {
                    fmt.insert(k, a);
                }
                other => panic!("non-JSON formatting attribute {:?}", other),
            }
        }
        out.push(CChunk { data, fmt });
    }
    ychunks_destroy(p, len);
    out
}

/// Follows a path of the harness (root, keys, indexes; for texts the index of a unit that is an
/// embedded shared type) using only getters of the C API.
pub unsafe fn navigate(cd: &CDoc, txn: TxnP, path: &[Seg]) -> Result<(i8, BranchP), String> {
    let mut arena = Arena::default();
    let mut cur: Option<(i8, BranchP)> = None;
    for seg in path {
        cur = Some(match (cur, seg) {
            (None, Seg::Root(name)) => {
                let b = cd.root(name);
                (ytype_kind(b), b)
            }
            (Some((kind, b)), seg) => {
                let cell = match (kind, seg) {
                    (Y_MAP, Seg::Key(k)) => take_out(ymap_get(b, txn, arena.cstr(k))),
                    (Y_ARRAY, Seg::Idx(i)) => take_out(yarray_get(b, txn, *i as u32)),
                    (Y_XML_ELEM | Y_XML_FRAG, Seg::Idx(i)) => take_out(yxmlelem_get(b, txn, *i as u32) as *mut YOutput),
                    (Y_TEXT | Y_XML_TEXT, Seg::Idx(i)) => {
                        // the i-th unit (character or embed) of the text
                        let mut left = *i;
                        let mut found = None;
                        for c in text_chunks(b, txn) {
                            match &c.data {
                                COut::Any(AnyV::Str(s)) => {
                                    let n = s.chars().count();
                                    if left < n {
                                        break;
                                    }
                                    left -= n;
                                }
                                other => {
                                    if left == 0 {
                                        found = Some(other.clone());
                                        break;
                                    }
                                    left -= 1;
                                }
                            }
                        }
                        found
                    }
                    (k, s) => return Err(format!("cannot follow {:?} from a type of kind {}", s, k)),
                };
                match cell {
                    Some(COut::Shared(tag, p)) if !p.is_null() => (tag, p),
                    other => return Err(format!("segment {:?} leads to {:?}", seg, other)),
                }
            }
            (None, s) => return Err(format!("path starts with {:?}", s)),
        });
    }
    cur.ok_or_else(|| "empty path".to_string())
}

/// offsets of the units of a text, computed from what the C API reports (`ytext_chunks`)
pub unsafe fn unit_offsets(txt: BranchP, txn: TxnP, kind: OffsetKind) -> Vec<u32> {
    let mut offs = vec![0u32];
    let mut at = 0u32;
    for c in text_chunks(txt, txn) {
        match &c.data {
            COut::Any(AnyV::Str(s)) => {
                for ch in s.chars() {
                    at += match kind {
                        OffsetKind::Bytes => ch.len_utf8() as u32,
                        OffsetKind::Utf16 => ch.len_utf16() as u32,
                    };
                    offs.push(at);
                }
            }
            _ => {
                at += 1;
                offs.push(at);
            }
        }
    }
    offs
}

/// Applies one concrete operation of the harness through the C API.
pub unsafe fn apply_c(cd: &CDoc, txn: TxnP, path: &[Seg], cop: &COp) -> Result<(), String> {
    let (kind, b) = navigate(cd, txn, path)?;
    let mut arena = Arena::default();
    let is_xml_text = kind == Y_XML_TEXT;
    match cop {
        COp::TextInsert { idx, s, attrs, push } => {
            let offs = unit_offsets(b, txn, cd.kind);
            let at = if *push { if is_xml_text { yxmltext_len(b, txn) } else { ytext_len(b, txn) } } else { offs[*idx] };
            let a = arena.opt_attrs(attrs);
            let p = arena.cstr(s);
            if is_xml_text {
                yxmltext_insert(b, txn, at, p, a);
            } else {
                ytext_insert(b, txn, at, p, a);
            }
        }
        COp::TextEmbed { idx, v, attrs } => {
            let offs = unit_offsets(b, txn, cd.kind);
            let a = arena.opt_attrs(attrs);
            let cell = arena.cval(v);
            let cp = arena.cell_ptr(cell);
            if is_xml_text {
                yxmltext_insert_embed(b, txn, offs[*idx], cp, a);
            } else {
                ytext_insert_embed(b, txn, offs[*idx], cp, a);
            }
        }
        COp::TextFormat { idx, len, attrs } => {
            let offs = unit_offsets(b, txn, cd.kind);
            let a = arena.attrs(attrs);
            let (at, l) = (offs[*idx], offs[*idx + *len] - offs[*idx]);
            if is_xml_text {
                yxmltext_format(b, txn, at, l, a);
            } else {
                ytext_format(b, txn, at, l, a);
            }
        }
        COp::TextRemove { idx, len } => {
            let offs = unit_offsets(b, txn, cd.kind);
            let (at, l) = (offs[*idx], offs[*idx + *len] - offs[*idx]);
            if is_xml_text {
                yxmltext_remove_range(b, txn, at, l);
            } else {
                ytext_remove_range(b, txn, at, l);
            }
        }
        COp::TextDelta { ops } => {
            if is_xml_text {
                return Err("the C API has no delta function for XML texts".into());
            }
            let offs = unit_offsets(b, txn, cd.kind);
            let mut cursor = 0usize;
            let mut delta: Vec<YDeltaIn> = Vec::new();
            for d in ops {
                match d {
                    CDelta::Retain(n, a) => {
                        let l = offs[cursor + n] - offs[cursor];
                        cursor += n;
                        delta.push(ydelta_input_retain(l, arena.opt_attrs(a)));
                    }
                    CDelta::Insert(s, a) => {
                        let cell = arena.any(&AnyV::Str(s.clone()));
                        let cp = arena.cell_ptr(cell);
                        delta.push(ydelta_input_insert(cp, arena.opt_attrs(a)));
                    }
                    CDelta::Embed(v, a) => {
                        let cell = arena.any(v);
                        let cp = arena.cell_ptr(cell);
                        delta.push(ydelta_input_insert(cp, arena.opt_attrs(a)));
                    }
                    CDelta::Delete(n) => {
                        let l = offs[cursor + n] - offs[cursor];
                        cursor += n;
                        delta.push(ydelta_input_delete(l));
                    }
                }
            }
            ytext_insert_delta(b, txn, delta.as_mut_ptr(), delta.len() as u32);
        }
        COp::ArrInsert { idx, vals, via } => {
            let at = match via {
                1 => yarray_len(b),
                2 => 0,
                _ => *idx as u32,
            };
            let mut cells = Vec::new();
            for v in vals {
                cells.push(arena.cval(v));
            }
            yarray_insert_range(b, txn, at, cells.as_ptr(), cells.len() as u32);
        }
        COp::ArrRemove { idx, len } => yarray_remove_range(b, txn, *idx as u32, *len as u32),
        COp::MapSet { key, v } => {
            let cell = arena.cval(v);
            let cp = arena.cell_ptr(cell);
            ymap_insert(b, txn, arena.cstr(key), cp);
        }
        COp::MapRemove { key } => {
            ymap_remove(b, txn, arena.cstr(key));
        }
        COp::MapClear => ymap_remove_all(b, txn),
        COp::MapTryUpdate { .. } | COp::MapGetOrInit { .. } => return Err("no counterpart in the C API".into()),
        COp::XmlInsert { idx, node } => match node {
            CXml::Elem(tag) => {
                let r = yxmlelem_insert_elem(b, txn, *idx as u32, arena.cstr(tag));
                if r.is_null() {
                    return Err("yxmlelem_insert_elem returned null".into());
                }
            }
            CXml::Text(s) => {
                let t = yxmlelem_insert_text(b, txn, *idx as u32);
                if t.is_null() {
                    return Err("yxmlelem_insert_text returned null".into());
                }
                if !s.is_empty() {
                    yxmltext_insert(t, txn, 0, arena.cstr(s), null());
                }
            }
            CXml::Frag => return Err("the C API cannot insert an XML fragment".into()),
        },
        COp::XmlRemove { idx, len } => yxmlelem_remove_range(b, txn, *idx as u32, *len as u32),
        COp::XmlSetAttr { key, v } => {
            let cell = arena.any(v);
            let cp = arena.cell_ptr(cell);
            if is_xml_text {
                yxmltext_insert_attr(b, txn, arena.cstr(key), cp);
            } else {
                yxmlelem_insert_attr(b, txn, arena.cstr(key), cp);
            }
        }
        COp::XmlRemoveAttr { key } => {
            if is_xml_text {
                yxmltext_remove_attr(b, txn, arena.cstr(key));
            } else {
                yxmlelem_remove_attr(b, txn, arena.cstr(key));
            }
        }
    }
    arena.release_docs();
    Ok(())
}

/// does the C API have a counterpart of this operation on this kind of target?
pub fn c_supports(cop: &COp, target_is_xml_text: bool) -> bool {
    fn nest_ok(v: &CVal) -> bool {
        !matches!(v, CVal::Nested(CNest::XmlFragment))
    }
    match cop {
        COp::MapTryUpdate { .. } | COp::MapGetOrInit { .. } => false,
        COp::TextDelta { .. } => !target_is_xml_text,
        COp::XmlInsert { node: CXml::Frag, .. } => false,
        COp::ArrInsert { vals, .. } => vals.iter().all(nest_ok),
        COp::MapSet { v, .. } => nest_ok(v),
        COp::TextEmbed { v, .. } => nest_ok(v),
        _ => true,
    }
}

pub unsafe fn bytes_out(p: *mut c_char, len: u32) -> Option<Vec<u8>> {
    if p.is_null() {
        return None;
    }
    let v = std::slice::from_raw_parts(p as *const u8, len as usize).to_vec();
    ybinary_destroy(p, len);
    Some(v)
}

pub unsafe fn null_txn() -> TxnP {
    null_mut()
}
