//! C19 — the C API is a faithful projection of the Rust API.
//!
//! Oracle: differential execution.  The same concrete operations are applied to a document through
//! the exported C functions and to a twin through the Rust API; after every step content, block
//! structure, state vectors and encoded state must be equal, every value read back through output
//! cells must equal what the Rust API returns, and replicas that exchange updates through the C
//! functions must end where their Rust-only twins end.

use crate::cffi::yffi::*;
use crate::cffi::*;
use crate::dump::*;
use crate::engine::*;
use crate::interp::*;
use crate::ops::*;
use crate::props::c03::{cop_name, make_doc};
use crate::val::AnyV;
use crate::{ensure, fail};
use proptest::prelude::*;
use serde::{Deserialize, Serialize};
use std::collections::BTreeMap;
use std::ptr::null;
use yrs::branch::{Branch, BranchPtr};
use yrs::types::text::YChange;
use yrs::types::xml::XmlOut;
use yrs::types::ToJson;
use yrs::updates::decoder::Decode;
use yrs::updates::encoder::Encode;
use yrs::verif_hooks::{store_blocks, update_units};
use yrs::{Array, BranchID, Doc, GetString, Map, OffsetKind, Out, ReadTxn, StateVector, Text, Transact, Update, Xml, XmlFragment};

// ------------------------------------------------------------------------------------------------
// shared comparisons
// ------------------------------------------------------------------------------------------------

/// The block store as compared between the two sides: per client the clocks in use and how many of
/// them are deleted.  Block *boundaries* are not compared: which neighbouring tombstones get
/// squashed depends on the order in which a transaction deleted them, and `Map::clear`, attribute
/// maps and the undo manager walk hash maps (two documents that received the same calls differ
/// there from run to run).
fn blocks_line(doc: &Doc) -> Vec<String> {
    blocks_summary(doc)
}

fn blocks_summary(doc: &Doc) -> Vec<String> {
    let txn = doc.transact();
    let mut per: BTreeMap<u64, (u32, u32)> = BTreeMap::new();
    for b in store_blocks(txn.store()).iter() {
        let e = per.entry(b.client.get()).or_default();
        e.0 = e.0.max(b.clock + b.len);
        if b.deleted {
            e.1 += b.len;
        }
    }
    per.iter().map(|(c, (end, del))| format!("client {}: clocks 0..{}, {} deleted", c, end, del)).collect()
}

/// both encodings describe the same blocks and deletions (byte equality fails legitimately when a
/// JSON map with several keys is written in a different hash order)
fn same_update(a: &[u8], b: &[u8], v2: bool) -> Result<bool, String> {
    if a == b {
        return Ok(true);
    }
    let dec = |x: &[u8]| if v2 { Update::decode_v2(x) } else { Update::decode_v1(x) };
    let (ua, ub) = (dec(a).map_err(|e| format!("C side: {}", e))?, dec(b).map_err(|e| format!("Rust side: {}", e))?);
    let units = |u: &Update| format!("{:?}", update_units(u).iter().map(|x| (x.id, x.len, x.kind)).collect::<Vec<_>>());
    // block boundaries follow the order of deletions inside of a transaction (hash order): compare
    // what is covered and how much of it is deleted, per client
    let _ = units;
    let summary = |u: &Update| {
        let mut per: BTreeMap<u64, (u32, u32, u32)> = BTreeMap::new();
        for x in update_units(u) {
            let e = per.entry(x.id.client.get()).or_insert((u32::MAX, 0, 0));
            e.0 = e.0.min(x.id.clock);
            e.1 = e.1.max(x.id.clock + x.len);
        }
        per
    };
    Ok(summary(&ua) == summary(&ub) && ua.delete_set() == ub.delete_set())
}

unsafe fn c_branch_id(b: BranchP) -> String {
    let id = ybranch_id(b);
    if id.client_or_len >= 0 {
        format!("{}#{}", id.client_or_len, id.variant.clock)
    } else {
        let s = std::slice::from_raw_parts(id.variant.name, (-id.client_or_len) as usize);
        format!("root:{}", std::str::from_utf8(s).unwrap_or("<invalid utf8>"))
    }
}

fn r_branch_id(b: &Branch) -> String {
    match b.id() {
        BranchID::Nested(id) => format!("{}#{}", id.client.get(), id.clock),
        BranchID::Root(name) => format!("root:{}", name),
    }
}

/// image of a native value that a C output cell must match: JSON-like values exactly (bits of
/// numbers included), shared types by kind and identity, sub-documents by guid
fn r_image(o: &Out) -> String {
    match o {
        Out::Any(a) => format!("any:{:?}", AnyV::from_any(a)),
        Out::YText(v) => format!("shared:{}:{}", Y_TEXT, r_branch_id(AsRef::<Branch>::as_ref(v))),
        Out::YArray(v) => format!("shared:{}:{}", Y_ARRAY, r_branch_id(AsRef::<Branch>::as_ref(v))),
        Out::YMap(v) => format!("shared:{}:{}", Y_MAP, r_branch_id(AsRef::<Branch>::as_ref(v))),
        Out::YXmlElement(v) => format!("shared:{}:{}", Y_XML_ELEM, r_branch_id(AsRef::<Branch>::as_ref(v))),
        Out::YXmlFragment(v) => format!("shared:{}:{}", Y_XML_FRAG, r_branch_id(AsRef::<Branch>::as_ref(v))),
        Out::YXmlText(v) => format!("shared:{}:{}", Y_XML_TEXT, r_branch_id(AsRef::<Branch>::as_ref(v))),
        Out::YWeakLink(v) => format!("shared:{}:{}", Y_WEAK_LINK, r_branch_id(AsRef::<Branch>::as_ref(v))),
        Out::YDoc(d) => format!("doc:{}", d.guid()),
        Out::UndefinedRef(b) => format!("shared:{}:{}", Y_UNDEFINED, r_branch_id(b)),
    }
}

unsafe fn c_image(o: &COut) -> String {
    match o {
        COut::Any(a) => format!("any:{:?}", a),
        COut::Shared(tag, p) => {
            if p.is_null() {
                format!("shared:{}:<null>", tag)
            } else {
                format!("shared:{}:{}", tag, c_branch_id(*p))
            }
        }
        COut::Doc(g) => format!("doc:{}", g),
        COut::Unreadable(t) => format!("unreadable:{}", t),
    }
}

fn xml_out(x: XmlOut) -> Out {
    match x {
        XmlOut::Element(e) => Out::YXmlElement(e),
        XmlOut::Text(t) => Out::YXmlText(t),
        XmlOut::Fragment(f) => Out::YXmlFragment(f),
    }
}

fn json_value(s: &str) -> serde_json::Value {
    serde_json::from_str(s).unwrap_or(serde_json::Value::String(format!("<unparsable: {}>", s)))
}

/// Every getter of the C API on every shared type of the document against the Rust API on the twin.
unsafe fn check_reads<T: ReadTxn>(rtxn: &T, roots: &Roots, cd: &CDoc, ctxn: TxnP, st: &mut CaseStats) -> Result<(), Fail> {
    let mut arena = Arena::default();
    for t in targets(rtxn, roots) {
        let (kind, b) = match navigate(cd, ctxn, &t.path) {
            Ok(x) => x,
            Err(e) => fail!("c19/read/navigate", "the C getters do not lead to {:?}: {}", t.path, e),
        };
        let at = format!("{:?}", t.path);
        ensure!(c_image(&COut::Shared(kind, b)) == r_image(&t.out), "c19/read/identity", "at {}: C side reaches {} but the Rust side holds {}", at, c_image(&COut::Shared(kind, b)), r_image(&t.out));
        ensure!(ybranch_alive(b) == Y_TRUE, "c19/read/alive", "at {}: ybranch_alive = 0 for a live type", at);
        {
            let id = ybranch_id(b);
            let back = ybranch_get(&id, ctxn);
            ensure!(back == b, "c19/read/branch-id-roundtrip", "at {}: ybranch_get(ybranch_id(b)) = {:?}, b = {:?}", at, back, b);
        }
        // JSON image of the whole type
        {
            let want: Option<String> = match &t.out {
                Out::YArray(a) => serde_json::to_string(&a.to_json(rtxn)).ok(),
                Out::YMap(m) => serde_json::to_string(&m.to_json(rtxn)).ok(),
                Out::YText(x) => serde_json::to_string(&yrs::Any::from(x.get_string(rtxn))).ok(),
                Out::YXmlText(x) => serde_json::to_string(&yrs::Any::from(x.get_string(rtxn))).ok(),
                Out::YXmlElement(x) => serde_json::to_string(&yrs::Any::from(x.get_string(rtxn))).ok(),
                Out::YXmlFragment(x) => serde_json::to_string(&yrs::Any::from(x.get_string(rtxn))).ok(),
                _ => None,
            };
            let got = c_string(ybranch_json(b, ctxn));
            ensure!(got.as_deref().map(json_value) == want.as_deref().map(json_value), "c19/read/ybranch_json", "at {}: ybranch_json = {:?}, Rust to_json = {:?}", at, got, want);
        }
        match &t.out {
            Out::YText(x) => {
                ensure!(ytext_len(b, ctxn) == x.len(rtxn), "c19/read/ytext_len", "at {}: ytext_len = {}, Rust len = {}", at, ytext_len(b, ctxn), x.len(rtxn));
                let s = c_string(ytext_string(b, ctxn));
                ensure!(s.as_deref() == Some(x.get_string(rtxn).as_str()), "c19/read/ytext_string", "at {}: ytext_string = {:?}, Rust get_string = {:?}", at, s, x.get_string(rtxn));
                let got: Vec<(String, BTreeMap<String, AnyV>)> = text_chunks(b, ctxn).iter().map(|c| (c_image(&c.data), c.fmt.clone())).collect();
                let want: Vec<(String, BTreeMap<String, AnyV>)> = x
                    .diff(rtxn, YChange::identity)
                    .into_iter()
                    .map(|d| (r_image(&d.insert), d.attributes.map(|a| a.iter().map(|(k, v)| (k.to_string(), AnyV::from_any(v))).collect()).unwrap_or_default()))
                    .collect();
                ensure!(got == want, "c19/read/ytext_chunks", "at {}: ytext_chunks = {:?}, Rust diff = {:?}", at, got, want);
                st.hit("reads_text");
            }
            Out::YXmlText(x) => {
                ensure!(yxmltext_len(b, ctxn) == x.len(rtxn), "c19/read/yxmltext_len", "at {}: yxmltext_len = {}, Rust len = {}", at, yxmltext_len(b, ctxn), x.len(rtxn));
                let s = c_string(yxmltext_string(b, ctxn));
                ensure!(s.as_deref() == Some(x.get_string(rtxn).as_str()), "c19/read/yxmltext_string", "at {}: yxmltext_string = {:?}, Rust get_string = {:?}", at, s, x.get_string(rtxn));
                check_attrs(rtxn, x, b, ctxn, true, &at, &mut arena)?;
                check_siblings(rtxn, x, b, ctxn, &at)?;
                st.hit("reads_xml_text");
            }
            Out::YArray(a) => {
                ensure!(yarray_len(b) == a.len(rtxn), "c19/read/yarray_len", "at {}: yarray_len = {}, Rust len = {}", at, yarray_len(b), a.len(rtxn));
                let it = yarray_iter(b, ctxn);
                for i in 0..a.len(rtxn) + 1 {
                    let want = a.get(rtxn, i);
                    let got = take_out(yarray_get(b, ctxn, i));
                    ensure!(got.as_ref().map(|o| c_image(o)) == want.as_ref().map(r_image), "c19/read/yarray_get", "at {}[{}]: yarray_get = {:?}, Rust get = {:?}", at, i, got.as_ref().map(|o| c_image(o)), want.as_ref().map(r_image));
                    let nxt = take_out(yarray_iter_next(it));
                    ensure!(nxt.as_ref().map(|o| c_image(o)) == want.as_ref().map(r_image), "c19/read/yarray_iter", "at {}[{}]: yarray_iter_next = {:?}, Rust = {:?}", at, i, nxt.as_ref().map(|o| c_image(o)), want.as_ref().map(r_image));
                    let gj = c_string(yarray_get_json(b, ctxn, i));
                    let wj = want.as_ref().and_then(|o| serde_json::to_string(&o.to_json(rtxn)).ok());
                    ensure!(gj.as_deref().map(json_value) == wj.as_deref().map(json_value), "c19/read/yarray_get_json", "at {}[{}]: yarray_get_json = {:?}, Rust = {:?}", at, i, gj, wj);
                }
                yarray_iter_destroy(it);
                st.hit("reads_array");
            }
            Out::YMap(m) => {
                ensure!(ymap_len(b, ctxn) == m.len(rtxn), "c19/read/ymap_len", "at {}: ymap_len = {}, Rust len = {}", at, ymap_len(b, ctxn), m.len(rtxn));
                let mut keys: Vec<String> = m.keys(rtxn).map(|k| k.to_string()).collect();
                keys.push("no-such-key".into());
                for k in keys.iter() {
                    let want = m.get(rtxn, k);
                    let got = take_out(ymap_get(b, ctxn, arena.cstr(k)));
                    ensure!(got.as_ref().map(|o| c_image(o)) == want.as_ref().map(r_image), "c19/read/ymap_get", "at {}[{:?}]: ymap_get = {:?}, Rust get = {:?}", at, k, got.as_ref().map(|o| c_image(o)), want.as_ref().map(r_image));
                    let gj = c_string(ymap_get_json(b, ctxn, arena.cstr(k)));
                    let wj = want.as_ref().and_then(|o| serde_json::to_string(&o.to_json(rtxn)).ok());
                    ensure!(gj.as_deref().map(json_value) == wj.as_deref().map(json_value), "c19/read/ymap_get_json", "at {}[{:?}]: ymap_get_json = {:?}, Rust = {:?}", at, k, gj, wj);
                }
                let it = ymap_iter(b, ctxn);
                let mut got: BTreeMap<String, String> = BTreeMap::new();
                loop {
                    let e = ymap_iter_next(it);
                    if e.is_null() {
                        break;
                    }
                    let k = std::ffi::CStr::from_ptr((*e).key).to_str().unwrap().to_string();
                    got.insert(k, c_image(&read_out((*e).value)));
                    ymap_entry_destroy(e);
                }
                ymap_iter_destroy(it);
                let want: BTreeMap<String, String> = m.iter(rtxn).map(|(k, v)| (k.to_string(), r_image(&v))).collect();
                ensure!(got == want, "c19/read/ymap_iter", "at {}: ymap_iter = {:?}, Rust iter = {:?}", at, got, want);
                st.hit("reads_map");
            }
            Out::YXmlElement(x) => {
                let tag = c_string(yxmlelem_tag(b));
                ensure!(tag.as_deref() == Some(&**x.tag()), "c19/read/yxmlelem_tag", "at {}: yxmlelem_tag = {:?}, Rust tag = {:?}", at, tag, x.tag());
                let s = c_string(yxmlelem_string(b, ctxn));
                ensure!(s.as_deref() == Some(x.get_string(rtxn).as_str()), "c19/read/yxmlelem_string", "at {}: yxmlelem_string = {:?}, Rust = {:?}", at, s, x.get_string(rtxn));
                check_attrs(rtxn, x, b, ctxn, false, &at, &mut arena)?;
                check_siblings(rtxn, x, b, ctxn, &at)?;
                check_children(rtxn, x, b, ctxn, &at)?;
                let p = yxmlelem_parent(b);
                let want = x.parent().map(|p| match p {
                    yrs::XmlOut::Element(e) => r_branch_id(AsRef::<Branch>::as_ref(&e)),
                    yrs::XmlOut::Fragment(e) => r_branch_id(AsRef::<Branch>::as_ref(&e)),
                    yrs::XmlOut::Text(e) => r_branch_id(AsRef::<Branch>::as_ref(&e)),
                });
                let got = if p.is_null() { None } else { Some(c_branch_id(p)) };
                ensure!(got == want, "c19/read/yxmlelem_parent", "at {}: yxmlelem_parent = {:?}, Rust parent = {:?}", at, got, want);
                st.hit("reads_xml_element");
            }
            Out::YXmlFragment(x) => {
                check_children(rtxn, x, b, ctxn, &at)?;
                st.hit("reads_xml_fragment");
            }
            _ => {}
        }
    }
    Ok(())
}

unsafe fn check_attrs<T: ReadTxn, X: Xml>(rtxn: &T, x: &X, b: BranchP, ctxn: TxnP, is_text: bool, at: &str, arena: &mut Arena) -> Result<(), Fail> {
    let want: BTreeMap<String, String> = x.attributes(rtxn).map(|(k, v)| (k.to_string(), r_image(&v))).collect();
    let it = if is_text { yxmltext_attr_iter(b, ctxn) } else { yxmlelem_attr_iter(b, ctxn) };
    let mut got: BTreeMap<String, String> = BTreeMap::new();
    loop {
        let a = yxmlattr_iter_next(it);
        if a.is_null() {
            break;
        }
        let k = std::ffi::CStr::from_ptr((*a).name).to_str().unwrap().to_string();
        got.insert(k, c_image(&read_out((*a).value)));
        yxmlattr_destroy(a);
    }
    yxmlattr_iter_destroy(it);
    ensure!(got == want, "c19/read/xml-attr-iter", "at {}: attribute iterator = {:?}, Rust attributes = {:?}", at, got, want);
    let mut keys: Vec<String> = want.keys().cloned().collect();
    keys.push("no-such-attr".into());
    for k in keys {
        let g = if is_text { take_out(yxmltext_get_attr(b, ctxn, arena.cstr(&k))) } else { take_out(yxmlelem_get_attr(b, ctxn, arena.cstr(&k))) };
        let w = x.get_attribute(rtxn, &k);
        ensure!(g.as_ref().map(|o| c_image(o)) == w.as_ref().map(r_image), "c19/read/xml-get-attr", "at {} attribute {:?}: C = {:?}, Rust = {:?}", at, k, g.as_ref().map(|o| c_image(o)), w.as_ref().map(r_image));
    }
    Ok(())
}

unsafe fn check_siblings<T: ReadTxn, X: Xml>(rtxn: &T, x: &X, b: BranchP, ctxn: TxnP, at: &str) -> Result<(), Fail> {
    let want_next = x.siblings(rtxn).next().map(|o| r_image(&xml_out(o)));
    let got_next = take_out(yxml_next_sibling(b, ctxn)).map(|o| c_image(&o));
    ensure!(got_next == want_next, "c19/read/yxml_next_sibling", "at {}: yxml_next_sibling = {:?}, Rust = {:?}", at, got_next, want_next);
    let want_prev = x.siblings(rtxn).next_back().map(|o| r_image(&xml_out(o)));
    let got_prev = take_out(yxml_prev_sibling(b, ctxn)).map(|o| c_image(&o));
    ensure!(got_prev == want_prev, "c19/read/yxml_prev_sibling", "at {}: yxml_prev_sibling = {:?}, Rust = {:?}", at, got_prev, want_prev);
    Ok(())
}

unsafe fn check_children<T: ReadTxn, X: XmlFragment>(rtxn: &T, x: &X, b: BranchP, ctxn: TxnP, at: &str) -> Result<(), Fail> {
    ensure!(yxmlelem_child_len(b, ctxn) == x.len(rtxn), "c19/read/yxmlelem_child_len", "at {}: yxmlelem_child_len = {}, Rust len = {}", at, yxmlelem_child_len(b, ctxn), x.len(rtxn));
    for i in 0..x.len(rtxn) + 1 {
        let want = x.get(rtxn, i).map(|o| r_image(&xml_out(o)));
        let got = take_out(yxmlelem_get(b, ctxn, i) as *mut YOutput).map(|o| c_image(&o));
        ensure!(got == want, "c19/read/yxmlelem_get", "at {}[{}]: yxmlelem_get = {:?}, Rust get = {:?}", at, i, got, want);
    }
    let want = x.first_child().map(|o| r_image(&xml_out(o)));
    let got = take_out(yxmlelem_first_child(b)).map(|o| c_image(&o));
    ensure!(got == want, "c19/read/yxmlelem_first_child", "at {}: yxmlelem_first_child = {:?}, Rust = {:?}", at, got, want);
    let want: Vec<String> = x.successors(rtxn).map(|o| r_image(&xml_out(o))).collect();
    let w = yxmlelem_tree_walker(b, ctxn);
    let mut got = Vec::new();
    loop {
        match take_out(yxmlelem_tree_walker_next(w)) {
            Some(o) => got.push(c_image(&o)),
            None => break,
        }
        if got.len() > want.len() + 4 {
            break;
        }
    }
    yxmlelem_tree_walker_destroy(w);
    ensure!(got == want, "c19/read/yxmlelem_tree_walker", "at {}: tree walker = {:?}, Rust successors = {:?}", at, got, want);
    Ok(())
}

/// the whole state of the C-driven document against its twin (between transactions)
unsafe fn check_state(rdoc: &Doc, roots: &Roots, cd: &CDoc, croots: &Roots, when: &str, st: &mut CaseStats) -> Result<(), Fail> {
    // block structure, read natively from both stores
    let (rb, cb) = (blocks_line(rdoc), blocks_line(&*cd.doc));
    ensure!(rb == cb, "c19/state/blocks", "{}: block store of the C-driven document {:?} differs from the Rust-driven one {:?}", when, cb, rb);
    let ctxn = cd.read();
    let rtxn = rdoc.transact();
    let res = (|| -> Result<(), Fail> {
        let d_r = dump_doc(&rtxn, roots);
        let d_c = dump_doc(&*ctxn, croots);
        if d_r != d_c {
            fail!("c19/state/content", "{}: {}", when, first_diff(&d_c, &d_r).unwrap_or_default());
        }
        // state vector
        let mut len = 0u32;
        let sv = bytes_out(ytransaction_state_vector_v1(ctxn, &mut len), len);
        ensure!(sv.as_deref() == Some(rtxn.state_vector().encode_v1().as_slice()), "c19/state/state-vector", "{}: ytransaction_state_vector_v1 = {:?}, Rust = {:?}", when, sv, rtxn.state_vector().encode_v1());
        // full state, both formats, against the corresponding Rust call
        for v2 in [false, true] {
            let mut len = 0u32;
            let got = if v2 { bytes_out(ytransaction_state_diff_v2(ctxn, null(), 0, &mut len), len) } else { bytes_out(ytransaction_state_diff_v1(ctxn, null(), 0, &mut len), len) };
            let Some(got) = got else { fail!("c19/state/diff-null", "{}: ytransaction_state_diff_v{} returned null", when, if v2 { 2 } else { 1 }) };
            let want = if v2 { rtxn.encode_diff_v2(&StateVector::default()) } else { rtxn.encode_diff_v1(&StateVector::default()) };
            match same_update(&got, &want, v2) {
                Ok(true) => {}
                Ok(false) => fail!(format!("c19/state/encoded-v{}", if v2 { 2 } else { 1 }), "{}: the encoded state of the C-driven document differs from the Rust-driven one ({} vs {} bytes)", when, got.len(), want.len()),
                Err(e) => fail!(format!("c19/state/encoded-v{}", if v2 { 2 } else { 1 }), "{}: encoded state does not decode: {}", when, e),
            }
            // and it rebuilds the document
            let fresh = make_doc(77, cd.kind == OffsetKind::Utf16, true, false);
            let froots = Roots::declare(&fresh);
            let u = if v2 { Update::decode_v2(&got) } else { Update::decode_v1(&got) };
            let applied = u.map_err(|e| e.to_string()).and_then(|u| fresh.transact_mut().apply_update(u).map_err(|e| e.to_string()));
            if let Err(e) = applied {
                fail!("c19/state/encoded-apply", "{}: state produced by the C API cannot be applied: {}", when, e);
            }
            let d_f = dump_doc(&fresh.transact(), &froots);
            if d_f != d_r {
                fail!("c19/state/encoded-rebuild", "{}: a document rebuilt from the C-side state differs: {}", when, first_diff(&d_f, &d_r).unwrap_or_default());
            }
        }
        // getters of the C API against the Rust getters on the very same document (strings that
        // print JSON maps or XML attributes follow the hash order of the instance)
        check_reads(&*ctxn, croots, cd, ctxn, st)?;
        check_doc_level(cd, ctxn, when)
    })();
    drop(rtxn);
    ytransaction_commit(ctxn);
    res
}

// ------------------------------------------------------------------------------------------------
// document-level observers and getters
// ------------------------------------------------------------------------------------------------

/// `YSubdocsEvent` as the C header declares it
#[repr(C)]
struct SubdocsMirror {
    added_len: u32,
    removed_len: u32,
    loaded_len: u32,
    added: *mut *mut Doc,
    removed: *mut *mut Doc,
    loaded: *mut *mut Doc,
}

unsafe fn guids(p: *mut *mut Doc, len: u32) -> Vec<String> {
    let mut v: Vec<String> = (0..len as usize).map(|i| c_string(ydoc_guid(*p.add(i))).unwrap_or_default()).collect();
    v.sort();
    v
}

extern "C" fn subdocs_cb(state: *mut std::ffi::c_void, e: *mut YSubdocsEvent) {
    unsafe {
        let log = &mut *(state as *mut Log);
        let m = &*(e as *const SubdocsMirror);
        log.push(format!("added {:?} removed {:?} loaded {:?}", guids(m.added, m.added_len), guids(m.removed, m.removed_len), guids(m.loaded, m.loaded_len)));
    }
}

unsafe fn c_sv(sv: &YStateVector) -> BTreeMap<u64, u32> {
    (0..sv.entries_count as usize).map(|i| (*sv.client_ids.add(i), *sv.clocks.add(i))).collect()
}

unsafe fn c_idset(ds: &YIdSet) -> BTreeMap<u64, Vec<(u32, u32)>> {
    (0..ds.entries_count as usize)
        .map(|i| {
            let seq = &*ds.ranges.add(i);
            (*ds.client_ids.add(i), (0..seq.len as usize).map(|j| ((*seq.seq.add(j)).start, (*seq.seq.add(j)).end)).collect())
        })
        .collect()
}

fn r_sv(sv: &StateVector) -> BTreeMap<u64, u32> {
    sv.iter().map(|(c, k)| (c.get(), *k)).collect()
}

fn r_idset(ds: &yrs::IdSet, sv: &StateVector) -> BTreeMap<u64, Vec<(u32, u32)>> {
    // ranges per client, read through contains() over the clocks the document knows
    let mut out = BTreeMap::new();
    for (c, end) in sv.iter() {
        let mut ranges: Vec<(u32, u32)> = Vec::new();
        let mut k = 0u32;
        while k < *end {
            if ds.contains(&yrs::ID::new(*c, k)) {
                let start = k;
                while k < *end && ds.contains(&yrs::ID::new(*c, k)) {
                    k += 1;
                }
                ranges.push((start, k));
            } else {
                k += 1;
            }
        }
        if !ranges.is_empty() {
            out.insert(c.get(), ranges);
        }
    }
    out
}

extern "C" fn after_txn_cb(state: *mut std::ffi::c_void, e: *mut YAfterTransactionEvent) {
    unsafe {
        let log = &mut *(state as *mut Log);
        log.push(format!("before {:?} after {:?} deleted {:?}", c_sv(&(*e).before_state), c_sv(&(*e).after_state), c_idset(&(*e).delete_set)));
    }
}

const JSON_PATHS: [&str; 6] = ["$.map.k0", "$.arr[0]", "$.arr[*]", "$.map.*", "$..b", "$.arr[1:3]"];

/// getters that belong to the document / transaction rather than to one shared type
unsafe fn check_doc_level(cd: &CDoc, ctxn: TxnP, when: &str) -> Result<(), Fail> {
    let d: &Doc = &*cd.doc;
    ensure!(ydoc_id(cd.doc) == d.client_id().get(), "c19/doc/id", "{}: ydoc_id = {}, Rust client_id = {}", when, ydoc_id(cd.doc), d.client_id().get());
    let g = c_string(ydoc_guid(cd.doc));
    ensure!(g.as_deref() == Some(&*d.guid()), "c19/doc/guid", "{}: ydoc_guid = {:?}, Rust guid = {:?}", when, g, d.guid());
    let c = c_string(ydoc_collection_id(cd.doc));
    ensure!(c.as_deref() == d.collection_id().as_deref(), "c19/doc/collection-id", "{}: ydoc_collection_id = {:?}, Rust = {:?}", when, c, d.collection_id());
    ensure!((ydoc_should_load(cd.doc) != 0) == d.should_load(), "c19/doc/should-load", "{}: ydoc_should_load = {}, Rust = {}", when, ydoc_should_load(cd.doc), d.should_load());
    ensure!((ydoc_auto_load(cd.doc) != 0) == d.auto_load(), "c19/doc/auto-load", "{}: ydoc_auto_load = {}, Rust = {}", when, ydoc_auto_load(cd.doc), d.auto_load());
    ensure!(ytransaction_writeable(ctxn) == 0, "c19/doc/writeable", "{}: ytransaction_writeable = {} for a read-only transaction", when, ytransaction_writeable(ctxn));
    let t = &*ctxn;
    // sub-documents known to the transaction
    {
        let mut len = 0u32;
        let p = ytransaction_subdocs(ctxn, &mut len);
        let mut got: Vec<String> = (0..len as usize).map(|i| c_string(ydoc_guid(*p.add(i))).unwrap_or_default()).collect();
        drop(Vec::from_raw_parts(p, len as usize, len as usize));
        got.sort();
        let mut want: Vec<String> = t.subdocs().map(|d| d.guid().to_string()).collect();
        want.sort();
        ensure!(got == want, "c19/doc/subdocs", "{}: ytransaction_subdocs = {:?}, Rust subdocs = {:?}", when, got, want);
    }
    // JSON path queries
    let mut arena = Arena::default();
    for q in JSON_PATHS {
        let it = ytransaction_json_path(ctxn, arena.cstr(q));
        let parsed = yrs::JsonPath::parse(q);
        ensure!(it.is_null() == parsed.is_err(), "c19/doc/json-path-parse", "{}: ytransaction_json_path({:?}) null = {}, Rust parse error = {}", when, q, it.is_null(), parsed.is_err());
        if let Ok(jp) = parsed {
            let want: Vec<String> = yrs::JsonPathEval::json_path(t, &jp).map(|o| r_image(&o)).collect();
            let mut got = Vec::new();
            while let Some(o) = take_out(yjson_path_iter_next(it)) {
                got.push(c_image(&o));
                if got.len() > want.len() + 4 {
                    break;
                }
            }
            yjson_path_iter_destroy(it);
            ensure!(got == want, "c19/doc/json-path", "{}: ytransaction_json_path({:?}) = {:?}, Rust = {:?}", when, q, got, want);
        }
    }
    Ok(())
}

// ------------------------------------------------------------------------------------------------
// part 1: operations and reads on one document
// ------------------------------------------------------------------------------------------------

#[derive(Clone, Debug, Serialize, Deserialize)]
pub struct Case {
    pub utf16: bool,
    pub skip_gc: bool,
    pub cleanup: bool,
    pub txns: Vec<Vec<Op>>,
    /// calls the operation language of the harness does not express (see `Extra`)
    #[serde(default)]
    pub extras: Vec<Extra>,
}

/// kind 0: `yarray_insert_range` on the root array with a mixed sequence of JSON-like values and
/// shared types (`vals`: 0 number, 1 string, 2 bool, 3 null, 4 text, 5 array, 6 map, 7 XML element);
/// kind 1 / 2: zero-length removal from the root text / root array; kind 3: a map entry written from
/// JSON text (`yinput_json`)
#[derive(Clone, Debug, Serialize, Deserialize)]
pub struct Extra {
    pub at_txn: u8,
    pub kind: u8,
    pub pos: u16,
    pub vals: Vec<u8>,
}

const JSON_DOCS: [&str; 5] = ["{\"a\":1.5}", "[1,\"x\",null,true]", "\"text \u{00e9}\"", "{\"n\":{\"m\":[]}}", "12"];

unsafe fn apply_extra(x: &Extra, rtxn: &mut yrs::TransactionMut, roots: &Roots, cd: &CDoc, ctxn: TxnP, kind: OffsetKind, alloc: &mut Alloc) -> Result<&'static str, String> {
    let mut arena = Arena::default();
    match x.kind % 4 {
        0 => {
            if x.vals.is_empty() {
                return Ok("extra_skipped");
            }
            let at = pick(x.pos, roots.arr.len(rtxn) as usize + 1) as u32;
            let vals: Vec<CVal> = x
                .vals
                .iter()
                .map(|k| match k % 8 {
                    0 => CVal::Any(AnyV::num(alloc.int() as f64)),
                    1 => CVal::Any(AnyV::Str(format!("s{}", alloc.int()))),
                    2 => CVal::Any(AnyV::Bool(true)),
                    3 => CVal::Any(AnyV::Null),
                    4 => CVal::Nested(CNest::Text("nested".into())),
                    5 => CVal::Nested(CNest::Array(vec![alloc.int() as i64])),
                    6 => CVal::Nested(CNest::Map(vec![("k".into(), alloc.int() as i64)])),
                    _ => CVal::Nested(CNest::XmlElement("p".into())),
                })
                .collect();
            // C: one call
            let cells: Vec<YInput> = vals.iter().map(|v| arena.cval(v)).collect();
            yarray_insert_range(cd.arr, ctxn, at, cells.as_ptr(), cells.len() as u32);
            // Rust: the values in order from that index on (runs of JSON-like values as one range)
            let mut j = at;
            let mut run: Vec<yrs::Any> = Vec::new();
            for v in vals.iter() {
                match v {
                    CVal::Any(a) => run.push(a.to_any()),
                    CVal::Nested(_) => {
                        if !run.is_empty() {
                            let n = run.len() as u32;
                            roots.arr.insert_range(rtxn, j, std::mem::take(&mut run));
                            j += n;
                        }
                        roots.arr.insert(rtxn, j, cval_to_in(v));
                        j += 1;
                    }
                }
            }
            if !run.is_empty() {
                roots.arr.insert_range(rtxn, j, run);
            }
            Ok("extra_mixed_array_insert")
        }
        1 => {
            let units = text_units(rtxn, &roots.text, 0);
            let at = units_width(&units[..pick(x.pos, units.len() + 1)], kind);
            ytext_remove_range(cd.text, ctxn, at, 0);
            roots.text.remove_range(rtxn, at, 0);
            Ok("extra_zero_length_text_remove")
        }
        2 => {
            let at = pick(x.pos, roots.arr.len(rtxn) as usize + 1) as u32;
            yarray_remove_range(cd.arr, ctxn, at, 0);
            roots.arr.remove_range(rtxn, at, 0);
            Ok("extra_zero_length_array_remove")
        }
        _ => {
            let json = JSON_DOCS[x.pos as usize % JSON_DOCS.len()];
            let cell = yinput_json(arena.cstr(json));
            let cp = arena.cell_ptr(cell);
            ymap_insert(cd.map, ctxn, arena.cstr("json"), cp);
            let any: yrs::Any = serde_json::from_str(json).map_err(|e| e.to_string())?;
            roots.map.insert(rtxn, "json", any);
            Ok("extra_json_input")
        }
    }
}

pub struct OpsPart;

/// Formatting attributes are kept in hash maps: with two attribute keys in play the order in which
/// format items are written, skipped and negated follows the hash order of the instance, and the
/// number of items, their clocks and which of them end up deleted differ legitimately between two
/// documents that received the same calls.  For an exact differential comparison every formatting
/// call of a case uses the same single key (values still vary: set, change, remove).
fn single_attr(cop: &mut COp) {
    fn cut(a: &mut CAttrs) {
        if let Some(v) = a.values().next().cloned() {
            a.clear();
            a.insert("b".to_string(), v);
        }
    }
    // the same holds for the entries of a map preliminary
    fn cut_nest(v: &mut CVal) {
        if let CVal::Nested(CNest::Map(kv)) = v {
            kv.truncate(1);
        }
    }
    match cop {
        COp::MapSet { v, .. } => cut_nest(v),
        COp::ArrInsert { vals, .. } => vals.iter_mut().for_each(cut_nest),
        _ => {}
    }
    if let COp::TextEmbed { v, .. } = cop {
        cut_nest(v);
    }
    // ... and for a JSON map embedded into a text: where a text is rendered as a string (the
    // string of a quotation that covers the embed) its entries appear in hash order
    fn cut_any(a: &mut AnyV) {
        match a {
            AnyV::Map(m) => {
                let first = m.iter().next().map(|(k, v)| (k.clone(), v.clone()));
                m.clear();
                if let Some((k, mut v)) = first {
                    cut_any(&mut v);
                    m.insert(k, v);
                }
            }
            AnyV::Arr(v) => v.iter_mut().for_each(cut_any),
            _ => {}
        }
    }
    match cop {
        COp::TextEmbed { v: CVal::Any(a), .. } => cut_any(a),
        COp::TextDelta { ops } => {
            for d in ops.iter_mut() {
                if let CDelta::Embed(a, _) = d {
                    cut_any(a);
                }
            }
        }
        _ => {}
    }
    match cop {
        COp::TextInsert { attrs: Some(a), .. } | COp::TextEmbed { attrs: Some(a), .. } => cut(a),
        COp::TextFormat { attrs, .. } => cut(attrs),
        COp::TextDelta { ops } => {
            for d in ops.iter_mut() {
                match d {
                    CDelta::Retain(_, Some(a)) | CDelta::Insert(_, Some(a)) | CDelta::Embed(_, Some(a)) => cut(a),
                    _ => {}
                }
            }
        }
        _ => {}
    }
}

fn is_xml_text(r: &Resolved) -> bool {
    matches!(r.target, Some(Out::YXmlText(_)))
}

impl Prop for OpsPart {
    type Case = Case;
    fn name(&self) -> &'static str {
        "ops"
    }
    fn cases(&self, tier: Tier) -> u64 {
        tier.pick(200_000, 1_500_000)
    }
    fn strategy(&self, tier: Tier) -> BoxedStrategy<Case> {
        let p = Profile::all();
        let max_txns = tier.pick(10, 20);
        let extra = (any::<u8>(), 0u8..4, any::<u16>(), prop::collection::vec(0u8..8, 0..5)).prop_map(|(at_txn, kind, pos, vals)| Extra { at_txn, kind, pos, vals });
        (any::<bool>(), any::<bool>(), any::<bool>(), prop::collection::vec(txn_ops(&p, 4), 1..=max_txns), prop::collection::vec(extra, 0..4))
            .prop_map(|(utf16, skip_gc, cleanup, txns, extras)| Case { utf16, skip_gc, cleanup, txns, extras })
            .boxed()
    }

    fn check(&self, case: &Case, st: &mut CaseStats) -> Result<(), Fail> {
        unsafe {
            let rdoc = make_doc(1, case.utf16, case.skip_gc, case.cleanup);
            let roots = Roots::declare(&rdoc);
            let cd = CDoc::new(1, case.utf16, case.skip_gc, case.cleanup);
            // typed handles of the C document's roots, used only to dump it
            let croots = Roots::declare(&*cd.doc);
            let kind = cd.kind;
            let mut alloc = Alloc::default();
            let mut applied = 0usize;
            // document observers on both sides
            let mut c_after: Box<Log> = Box::new(Vec::new());
            let mut c_sub: Box<Log> = Box::new(Vec::new());
            let sub_a = ydoc_observe_after_transaction(cd.doc, &mut *c_after as *mut Log as *mut std::ffi::c_void, after_txn_cb);
            let sub_s = ydoc_observe_subdocs(cd.doc, &mut *c_sub as *mut Log as *mut std::ffi::c_void, subdocs_cb);
            let r_after: std::sync::Arc<std::sync::Mutex<Log>> = Default::default();
            let r_sub: std::sync::Arc<std::sync::Mutex<Log>> = Default::default();
            let (ra, rs) = (r_after.clone(), r_sub.clone());
            let _ka = rdoc
                .observe_transaction_cleanup(move |_, e| ra.lock().unwrap().push(format!("before {:?} after {:?} deleted {:?}", r_sv(&e.before_state), r_sv(&e.after_state), r_idset(&e.delete_set, &e.after_state))))
                .unwrap();
            let _ks = rdoc
                .observe_subdocs(move |_, e| {
                    let g = |it: yrs::SubdocsEventIter| {
                        let mut v: Vec<String> = it.map(|d| d.guid().to_string()).collect();
                        v.sort();
                        v
                    };
                    rs.lock().unwrap().push(format!("added {:?} removed {:?} loaded {:?}", g(e.added()), g(e.removed()), g(e.loaded())))
                })
                .unwrap();
            let result = (|| -> Result<(), Fail> {
            for (ti, ops) in case.txns.iter().enumerate() {
                {
                    let mut rtxn = rdoc.transact_mut();
                    let ctxn = cd.write();
                    let mut res: Result<(), Fail> = Ok(());
                    for (oi, op) in ops.iter().enumerate() {
                        let Some(mut r) = resolve(&rtxn, &roots, op, &mut alloc) else {
                            st.hit("op_without_target");
                            continue;
                        };
                        single_attr(&mut r.cop);
                        if !c_supports(&r.cop, is_xml_text(&r)) {
                            st.hit("op_without_c_counterpart");
                            continue;
                        }
                        apply_real(&mut rtxn, &r, kind);
                        if let Err(e) = apply_c(&cd, ctxn, &r.path, &r.cop) {
                            res = Err(Fail { sig: format!("c19/apply/{}", cop_name(&r.cop)), msg: format!("txn {} op {} {:?} at {:?}: {}", ti, oi, r.cop, r.path, e) });
                            break;
                        }
                        applied += 1;
                        st.hit(cop_name(&r.cop));
                        let (d_r, d_c) = (dump_doc(&rtxn, &roots), dump_doc(&*ctxn, &croots));
                        if d_r != d_c {
                            res = Err(Fail {
                                sig: format!("c19/content/{}", cop_name(&r.cop)),
                                msg: format!("after txn {} op {} {:?} at {:?}: C-driven document differs from the Rust-driven one: {}", ti, oi, r.cop, r.path, first_diff(&d_c, &d_r).unwrap_or_default()),
                            });
                            break;
                        }
                    }
                    if res.is_ok() {
                        for x in case.extras.iter().filter(|x| x.at_txn as usize % case.txns.len() == ti) {
                            match apply_extra(x, &mut rtxn, &roots, &cd, ctxn, kind, &mut alloc) {
                                Ok(class) => {
                                    st.hit(class);
                                    applied += 1;
                                }
                                Err(e) => {
                                    res = Err(Fail { sig: "c19/apply/extra".into(), msg: format!("txn {} {:?}: {}", ti, x, e) });
                                    break;
                                }
                            }
                            let (d_r, d_c) = (dump_doc(&rtxn, &roots), dump_doc(&*ctxn, &croots));
                            if d_r != d_c {
                                res = Err(Fail { sig: format!("c19/content/extra-{}", x.kind % 4), msg: format!("after txn {} {:?}: C-driven document differs from the Rust-driven one: {}", ti, x, first_diff(&d_c, &d_r).unwrap_or_default()) });
                                break;
                            }
                        }
                    }
                    drop(rtxn);
                    ytransaction_commit(ctxn);
                    res?;
                }
                {
                    let want = std::mem::take(&mut *r_after.lock().unwrap());
                    let got = std::mem::take(&mut *c_after);
                    ensure!(got == want, "c19/doc/after-transaction", "txn {}: ydoc_observe_after_transaction reported {:?}, the Rust observer {:?}", ti, got, want);
                    let want = std::mem::take(&mut *r_sub.lock().unwrap());
                    let got = std::mem::take(&mut *c_sub);
                    ensure!(got == want, "c19/doc/subdocs-event", "txn {}: ydoc_observe_subdocs reported {:?}, the Rust observer {:?}", ti, got, want);
                }
                check_state(&rdoc, &roots, &cd, &croots, &format!("after txn {}", ti), st)?;
                // read transactions of check_state fire the cleanup observers too
                r_after.lock().unwrap().clear();
                c_after.clear();
            }
            Ok(())
            })();
            yunobserve(sub_a);
            yunobserve(sub_s);
            drop(c_after);
            drop(c_sub);
            if applied >= 3 {
                st.nt();
            }
            result
        }
    }
}

// ------------------------------------------------------------------------------------------------
// part 2: exchange between a C-driven and a Rust-driven replica
// ------------------------------------------------------------------------------------------------

#[derive(Clone, Debug, Serialize, Deserialize)]
pub enum XStep {
    /// local transaction on the C-driven replica (and its twin) / on the Rust peer (and its twin)
    Local { on_c: bool, ops: Vec<Op> },
    /// state-vector based sync in one direction
    Sync { to_c: bool, v2: bool },
    /// the incremental update of the n-th last transaction of the sender, delivered out of band
    Update { to_c: bool, v2: bool, back: u8 },
    ForceGc { on_c: bool },
}

#[derive(Clone, Debug, Serialize, Deserialize)]
pub struct XCase {
    pub utf16: bool,
    pub skip_gc: bool,
    pub steps: Vec<XStep>,
}

pub struct ExchangePart;

extern "C" fn collect_update(state: *mut std::ffi::c_void, len: u32, data: *const std::ffi::c_char) {
    unsafe {
        let v = &mut *(state as *mut Vec<Vec<u8>>);
        v.push(std::slice::from_raw_parts(data as *const u8, len as usize).to_vec());
    }
}

impl Prop for ExchangePart {
    type Case = XCase;
    fn name(&self) -> &'static str {
        "exchange"
    }
    fn cases(&self, tier: Tier) -> u64 {
        tier.pick(150_000, 1_000_000)
    }
    fn strategy(&self, tier: Tier) -> BoxedStrategy<XCase> {
        let p = Profile::all();
        let max = tier.pick(14, 28);
        let step = prop_oneof![
            5 => (any::<bool>(), txn_ops(&p, 3)).prop_map(|(on_c, ops)| XStep::Local { on_c, ops }),
            3 => (any::<bool>(), any::<bool>()).prop_map(|(to_c, v2)| XStep::Sync { to_c, v2 }),
            3 => (any::<bool>(), any::<bool>(), 0u8..4).prop_map(|(to_c, v2, back)| XStep::Update { to_c, v2, back }),
            1 => any::<bool>().prop_map(|on_c| XStep::ForceGc { on_c }),
        ];
        (any::<bool>(), any::<bool>(), prop::collection::vec(step, 2..=max)).prop_map(|(utf16, skip_gc, steps)| XCase { utf16, skip_gc, steps }).boxed()
    }

    fn check(&self, case: &XCase, st: &mut CaseStats) -> Result<(), Fail> {
        unsafe {
            // A = C-driven (client 1), A2 = its Rust twin; B = Rust peer of A (client 2), B2 = Rust peer of A2
            let cd = CDoc::new(1, case.utf16, case.skip_gc, false);
            let croots = Roots::declare(&*cd.doc);
            let a2 = make_doc(1, case.utf16, case.skip_gc, false);
            let a2roots = Roots::declare(&a2);
            let b = make_doc(2, case.utf16, case.skip_gc, false);
            let broots = Roots::declare(&b);
            let b2 = make_doc(2, case.utf16, case.skip_gc, false);
            let b2roots = Roots::declare(&b2);
            let kind = cd.kind;
            let mut alloc = Alloc::default();
            // incremental updates: of A through the C observer, of the others through the Rust observer
            let mut a_v1: Box<Vec<Vec<u8>>> = Box::new(Vec::new());
            let mut a_v2: Box<Vec<Vec<u8>>> = Box::new(Vec::new());
            let s1 = ydoc_observe_updates_v1(cd.doc, &mut *a_v1 as *mut Vec<Vec<u8>> as *mut std::ffi::c_void, collect_update);
            let s2 = ydoc_observe_updates_v2(cd.doc, &mut *a_v2 as *mut Vec<Vec<u8>> as *mut std::ffi::c_void, collect_update);
            let log = |doc: &Doc| {
                let v1 = std::sync::Arc::new(std::sync::Mutex::new(Vec::<Vec<u8>>::new()));
                let v2 = std::sync::Arc::new(std::sync::Mutex::new(Vec::<Vec<u8>>::new()));
                let (c1, c2) = (v1.clone(), v2.clone());
                let s1 = doc.observe_update_v1(move |_, e| c1.lock().unwrap().push(e.update.clone())).unwrap();
                let s2 = doc.observe_update_v2(move |_, e| c2.lock().unwrap().push(e.update.clone())).unwrap();
                (v1, v2, s1, s2)
            };
            let (a2_v1, a2_v2, _k1, _k2) = log(&a2);
            let (b_v1, b_v2, _k3, _k4) = log(&b);
            let (b2_v1, b2_v2, _k5, _k6) = log(&b2);
            let mut exchanged = 0usize;
            let result = (|| -> Result<(), Fail> {
                for (si, step) in case.steps.iter().enumerate() {
                    let when = format!("after step {} {:?}", si, step);
                    match step {
                        XStep::Local { on_c: true, ops } => {
                            let mut rtxn = a2.transact_mut();
                            let ctxn = cd.write();
                            let mut res = Ok(());
                            for op in ops {
                                let Some(mut r) = resolve(&rtxn, &a2roots, op, &mut alloc) else { continue };
                                single_attr(&mut r.cop);
                                if !c_supports(&r.cop, is_xml_text(&r)) {
                                    continue;
                                }
                                apply_real(&mut rtxn, &r, kind);
                                if let Err(e) = apply_c(&cd, ctxn, &r.path, &r.cop) {
                                    res = Err(Fail { sig: format!("c19/apply/{}", cop_name(&r.cop)), msg: format!("{}: {:?} at {:?}: {}", when, r.cop, r.path, e) });
                                    break;
                                }
                            }
                            drop(rtxn);
                            ytransaction_commit(ctxn);
                            res?;
                        }
                        XStep::Local { on_c: false, ops } => {
                            let mut t1 = b.transact_mut();
                            let mut t2 = b2.transact_mut();
                            for op in ops {
                                let Some(mut r) = resolve(&t1, &broots, op, &mut alloc) else { continue };
                                single_attr(&mut r.cop);
                                if !c_supports(&r.cop, is_xml_text(&r)) {
                                    continue;
                                }
                                // the same concrete operation on the peer's twin
                                let r2 = Resolved { path: r.path.clone(), cop: r.cop.clone(), target: crate::interp::follow(&t2, &b2roots, &r.path) };
                                apply_real(&mut t1, &r, kind);
                                if r2.target.is_some() {
                                    apply_real(&mut t2, &r2, kind);
                                } else {
                                    fail!("c19/harness/twin-navigation", "{}: path {:?} does not exist on the peer's twin", when, r.path);
                                }
                            }
                        }
                        XStep::Sync { to_c: true, v2 } => {
                            // A asks B: state vector through the C API, diff from Rust, applied through the C API
                            let ctxn = cd.write();
                            let mut len = 0u32;
                            let sv = bytes_out(ytransaction_state_vector_v1(ctxn, &mut len), len).unwrap_or_default();
                            let sv_twin = a2.transact().state_vector();
                            let res = (|| -> Result<(), Fail> {
                                let svd = match StateVector::decode_v1(&sv) {
                                    Ok(s) => s,
                                    Err(e) => fail!("c19/exchange/state-vector", "{}: the state vector produced by the C API does not decode: {}", when, e),
                                };
                                ensure!(svd == sv_twin, "c19/exchange/state-vector", "{}: state vector from the C API {:?} differs from the twin's {:?}", when, svd, sv_twin);
                                let diff = if *v2 { b.transact().encode_diff_v2(&svd) } else { b.transact().encode_diff_v1(&svd) };
                                let code = if *v2 { ytransaction_apply_v2(ctxn, diff.as_ptr() as *const _, diff.len() as u32) } else { ytransaction_apply(ctxn, diff.as_ptr() as *const _, diff.len() as u32) };
                                ensure!(code == 0, "c19/exchange/apply-code", "{}: ytransaction_apply returned error code {} for a valid update", when, code);
                                Ok(())
                            })();
                            ytransaction_commit(ctxn);
                            res?;
                            let diff2 = if *v2 { b2.transact().encode_diff_v2(&sv_twin) } else { b2.transact().encode_diff_v1(&sv_twin) };
                            let u = if *v2 { Update::decode_v2(&diff2) } else { Update::decode_v1(&diff2) }.unwrap();
                            a2.transact_mut().apply_update(u).unwrap();
                            exchanged += 1;
                        }
                        XStep::Sync { to_c: false, v2 } => {
                            // B asks A: the diff is produced by the C API
                            let sv = b.transact().state_vector();
                            let svb = sv.encode_v1();
                            let ctxn = cd.read();
                            let mut len = 0u32;
                            let diff = if *v2 { bytes_out(ytransaction_state_diff_v2(ctxn, svb.as_ptr() as *const _, svb.len() as u32, &mut len), len) } else { bytes_out(ytransaction_state_diff_v1(ctxn, svb.as_ptr() as *const _, svb.len() as u32, &mut len), len) };
                            ytransaction_commit(ctxn);
                            let Some(diff) = diff else { fail!("c19/exchange/diff-null", "{}: ytransaction_state_diff returned null for a valid state vector", when) };
                            let sv2 = b2.transact().state_vector();
                            let diff2 = if *v2 { a2.transact().encode_diff_v2(&sv2) } else { a2.transact().encode_diff_v1(&sv2) };
                            match same_update(&diff, &diff2, *v2) {
                                Ok(true) => {}
                                Ok(false) => fail!("c19/exchange/diff", "{}: the diff produced by the C API differs from the twin's", when),
                                Err(e) => fail!("c19/exchange/diff", "{}: diff does not decode: {}", when, e),
                            }
                            let u = if *v2 { Update::decode_v2(&diff) } else { Update::decode_v1(&diff) }.unwrap();
                            if let Err(e) = b.transact_mut().apply_update(u) {
                                fail!("c19/exchange/diff-apply", "{}: {}", when, e);
                            }
                            let u2 = if *v2 { Update::decode_v2(&diff2) } else { Update::decode_v1(&diff2) }.unwrap();
                            b2.transact_mut().apply_update(u2).unwrap();
                            exchanged += 1;
                        }
                        XStep::Update { to_c: true, v2, back } => {
                            // an incremental update of B applied through the C API (may leave data pending)
                            let pick = |v: &std::sync::Mutex<Vec<Vec<u8>>>| {
                                let v = v.lock().unwrap();
                                if v.is_empty() {
                                    None
                                } else {
                                    Some(v[v.len() - 1 - (*back as usize).min(v.len() - 1)].clone())
                                }
                            };
                            let (u, u2) = if *v2 { (pick(&b_v2), pick(&b2_v2)) } else { (pick(&b_v1), pick(&b2_v1)) };
                            if let (Some(u), Some(u2)) = (u, u2) {
                                let ctxn = cd.write();
                                let code = if *v2 { ytransaction_apply_v2(ctxn, u.as_ptr() as *const _, u.len() as u32) } else { ytransaction_apply(ctxn, u.as_ptr() as *const _, u.len() as u32) };
                                ytransaction_commit(ctxn);
                                ensure!(code == 0, "c19/exchange/apply-code", "{}: ytransaction_apply returned error code {} for a valid update", when, code);
                                let d = if *v2 { Update::decode_v2(&u2) } else { Update::decode_v1(&u2) }.unwrap();
                                a2.transact_mut().apply_update(d).unwrap();
                                exchanged += 1;
                            }
                        }
                        XStep::Update { to_c: false, v2, back } => {
                            // an incremental update emitted by the C observer, applied to B
                            let src = if *v2 { &a_v2 } else { &a_v1 };
                            let twin = if *v2 { a2_v2.lock().unwrap().clone() } else { a2_v1.lock().unwrap().clone() };
                            ensure!(src.len() == twin.len(), "c19/exchange/observer-count", "{}: the C update observer fired {} times, the twin's {} times", when, src.len(), twin.len());
                            if !src.is_empty() {
                                let i = src.len() - 1 - (*back as usize).min(src.len() - 1);
                                match same_update(&src[i], &twin[i], *v2) {
                                    Ok(true) => {}
                                    Ok(false) => fail!("c19/exchange/observer-update", "{}: update {} emitted through the C observer differs from the twin's", when, i),
                                    Err(e) => fail!("c19/exchange/observer-update", "{}: update does not decode: {}", when, e),
                                }
                                let d = if *v2 { Update::decode_v2(&src[i]) } else { Update::decode_v1(&src[i]) }.unwrap();
                                b.transact_mut().apply_update(d).unwrap();
                                let d2 = if *v2 { Update::decode_v2(&twin[i]) } else { Update::decode_v1(&twin[i]) }.unwrap();
                                b2.transact_mut().apply_update(d2).unwrap();
                                exchanged += 1;
                            }
                        }
                        XStep::ForceGc { on_c: true } => {
                            let ctxn = cd.write();
                            ytransaction_force_gc(ctxn);
                            ytransaction_commit(ctxn);
                            a2.transact_mut().gc(None);
                        }
                        XStep::ForceGc { on_c: false } => {
                            b.transact_mut().gc(None);
                            b2.transact_mut().gc(None);
                        }
                    }
                    // the C-driven replica against its twin, the peer against the twin's peer
                    {
                        let (x, y) = (blocks_line(&*cd.doc), blocks_line(&a2));
                        ensure!(x == y, "c19/exchange/blocks", "{}: block store of the C-driven replica {:?} differs from its twin's {:?}", when, x, y);
                        let (x, y) = (blocks_line(&b), blocks_line(&b2));
                        ensure!(x == y, "c19/exchange/peer-blocks", "{}: block store of the peer {:?} differs from the twin's peer {:?}", when, x, y);
                        let ctxn = cd.read();
                        let d_c = dump_doc(&*ctxn, &croots);
                        // pending data as the C API reports it
                        let pu = ytransaction_pending_update(ctxn);
                        let pds = ytransaction_pending_ds(ctxn);
                        let (has_pu, has_pds) = (!pu.is_null(), !pds.is_null());
                        if has_pu {
                            ypending_update_destroy(pu);
                        }
                        if has_pds {
                            ydelete_set_destroy(pds);
                        }
                        ytransaction_commit(ctxn);
                        let t = a2.transact();
                        let d_a2 = dump_doc(&t, &a2roots);
                        if d_c != d_a2 {
                            fail!("c19/exchange/content", "{}: {}", when, first_diff(&d_c, &d_a2).unwrap_or_default());
                        }
                        ensure!(has_pu == t.store().pending_update().is_some(), "c19/exchange/pending-update", "{}: ytransaction_pending_update present = {}, twin has a pending update = {}", when, has_pu, t.store().pending_update().is_some());
                        ensure!(has_pds == t.store().pending_ds().is_some(), "c19/exchange/pending-ds", "{}: ytransaction_pending_ds present = {}, twin has a pending delete set = {}", when, has_pds, t.store().pending_ds().is_some());
                        let (d_b, d_b2) = (dump_doc(&b.transact(), &broots), dump_doc(&b2.transact(), &b2roots));
                        if d_b != d_b2 {
                            fail!("c19/exchange/peer-content", "{}: {}", when, first_diff(&d_b, &d_b2).unwrap_or_default());
                        }
                    }
                }
                // final two-way sync through the C API: convergence
                {
                    let ctxn = cd.write();
                    let mut len = 0u32;
                    let sv = bytes_out(ytransaction_state_vector_v1(ctxn, &mut len), len).unwrap_or_default();
                    let svd = StateVector::decode_v1(&sv).unwrap_or_default();
                    let diff = b.transact().encode_state_as_update_v1(&svd);
                    let code = ytransaction_apply(ctxn, diff.as_ptr() as *const _, diff.len() as u32);
                    ytransaction_commit(ctxn);
                    ensure!(code == 0, "c19/exchange/apply-code", "final sync: ytransaction_apply returned {}", code);
                    let svb = b.transact().state_vector().encode_v1();
                    let ctxn = cd.read();
                    let mut len = 0u32;
                    let diff = bytes_out(ytransaction_state_diff_v1(ctxn, svb.as_ptr() as *const _, svb.len() as u32, &mut len), len);
                    ytransaction_commit(ctxn);
                    let Some(diff) = diff else { fail!("c19/exchange/diff-null", "final sync: ytransaction_state_diff_v1 returned null") };
                    match Update::decode_v1(&diff) {
                        Ok(u) => {
                            if let Err(e) = b.transact_mut().apply_update(u) {
                                fail!("c19/exchange/diff-apply", "final sync: {}", e);
                            }
                        }
                        Err(e) => fail!("c19/exchange/diff", "final sync: diff does not decode: {}", e),
                    }
                    let ctxn = cd.read();
                    let d_c = dump_doc(&*ctxn, &croots);
                    ytransaction_commit(ctxn);
                    let d_b = dump_doc(&b.transact(), &broots);
                    if !b.transact().has_missing_updates() && d_c != d_b {
                        fail!("c19/exchange/convergence", "after the final two-way sync the C-driven replica and its Rust peer differ: {}", first_diff(&d_c, &d_b).unwrap_or_default());
                    }
                }
                Ok(())
            })();
            yunobserve(s1);
            yunobserve(s2);
            drop(a_v1);
            drop(a_v2);
            if exchanged >= 2 {
                st.nt();
            }
            st.add("exchanges", exchanged as u64);
            result
        }
    }
}

pub fn property() -> Property {
    Property {
        id: "C19",
        level: "exploration",
        rule: "differential execution of the C API (yffi/src/lib.rs compiled into the harness, called only through its exported functions and header structures) against the Rust API: (ops) generated transactions of text / XML text (insert, attributes, embeds of every input cell kind incl. nested shared types and sub-documents, format, remove, delta), array, map and XML element operations applied to a C-driven document and to a Rust-driven twin with the same options; after every operation the canonical dumps are equal, after every transaction block stores, state vectors, v1/v2 encoded state (and a document rebuilt from it) are equal and every getter of the C API on every shared type of the document (lengths, strings, chunks, cells of every kind, iterators, JSON images, XML navigation, attributes, branch ids) returns what the Rust API returns on the twin; (exchange) a C-driven replica and a Rust peer exchange state-vector diffs and incremental updates (C update observers, ytransaction_apply / _v2, pending data, forced GC) in generated orders while Rust-only twins do the same: block stores and contents of twins stay equal and the replicas converge.  Non-trivial = at least three operations went through the C API (ops) / two exchanges (exchange); distinct = distinct generated case".into(),
        assumptions: vec![
            "strings cross the C boundary as NUL-terminated UTF-8: generated strings contain no NUL".into(),
            "operations without a C counterpart (try_update, get_or_init, XML fragments as values, delta on XML text) are skipped on both sides".into(),
            "encoded states are compared by decoded block structure and delete set when bytes differ (hash order of multi-key JSON maps)".into(),
        ],
        parts: vec![Box::new(Part(OpsPart)), Box::new(Part(ExchangePart)), Box::new(Part(AuxPart)), Box::new(Part(EventsPart))],
    }
}

// ------------------------------------------------------------------------------------------------
// part 3: sticky indexes, undo manager, snapshots, quotations
// ------------------------------------------------------------------------------------------------

#[derive(Clone, Debug, Serialize, Deserialize)]
pub enum AStep {
    Edit { origin: Option<u8>, ops: Vec<Op> },
    /// sticky index on root `root` (0 text, 1 array, 2 xml) at fraction `at` of its length
    StickyMake { root: u8, at: u16, after: bool },
    StickyRead { which: u8 },
    StickyCodec { which: u8 },
    Undo,
    Redo,
    UndoClear,
    UndoStop,
    AddOrigin(u8),
    RemoveOrigin(u8),
    Snapshot,
    FromSnapshot { which: u8, v2: bool },
    /// quotation of root text (kind 0) / root array (kind 1) between fractions a..b, or a link to map entry (kind 2)
    Quote { kind: u8, a: u16, b: u16, sk: u8, ek: u8, key: u8 },
    ForceGc,
}

#[derive(Clone, Debug, Serialize, Deserialize)]
pub struct ACase {
    pub utf16: bool,
    pub skip_gc: bool,
    /// roots in the scope of the undo manager (bit mask: text, array, map, xml)
    pub scope: u8,
    pub steps: Vec<AStep>,
}

pub struct AuxPart;

fn origin_bytes(o: u8) -> Vec<u8> {
    vec![b'o', b'0' + (o % 3)]
}

impl Prop for AuxPart {
    type Case = ACase;
    fn name(&self) -> &'static str {
        "aux"
    }
    fn cases(&self, tier: Tier) -> u64 {
        tier.pick(150_000, 1_000_000)
    }
    fn strategy(&self, tier: Tier) -> BoxedStrategy<ACase> {
        let p = Profile::all();
        let max = tier.pick(16, 30);
        let step = prop_oneof![
            8 => (prop::option::weighted(0.6, 0u8..3), txn_ops(&p, 3)).prop_map(|(origin, ops)| AStep::Edit { origin, ops }),
            3 => (0u8..3, any::<u16>(), any::<bool>()).prop_map(|(root, at, after)| AStep::StickyMake { root, at, after }),
            3 => any::<u8>().prop_map(|which| AStep::StickyRead { which }),
            1 => any::<u8>().prop_map(|which| AStep::StickyCodec { which }),
            4 => Just(AStep::Undo),
            3 => Just(AStep::Redo),
            1 => Just(AStep::UndoClear),
            1 => Just(AStep::UndoStop),
            1 => (0u8..3).prop_map(AStep::AddOrigin),
            1 => (0u8..3).prop_map(AStep::RemoveOrigin),
            2 => Just(AStep::Snapshot),
            2 => (any::<u8>(), any::<bool>()).prop_map(|(which, v2)| AStep::FromSnapshot { which, v2 }),
            3 => (0u8..3, any::<u16>(), any::<u16>(), 0u8..3, 0u8..3, 0u8..4).prop_map(|(kind, a, b, sk, ek, key)| AStep::Quote { kind, a, b, sk, ek, key }),
            1 => Just(AStep::ForceGc),
        ];
        (any::<bool>(), any::<bool>(), 1u8..16, prop::collection::vec(step, 3..=max)).prop_map(|(utf16, skip_gc, scope, steps)| ACase { utf16, skip_gc, scope, steps }).boxed()
    }

    fn check(&self, case: &ACase, st: &mut CaseStats) -> Result<(), Fail> {
        unsafe {
            let cd = CDoc::new(1, case.utf16, case.skip_gc, false);
            let croots = Roots::declare(&*cd.doc);
            let rdoc = make_doc(1, case.utf16, case.skip_gc, false);
            let roots = Roots::declare(&rdoc);
            let kind = cd.kind;
            let mut alloc = Alloc::default();
            // undo managers: capture timeout 0 = every tracked transaction is its own entry
            let copt = YUndoManagerOptions { capture_timeout_millis: 0 };
            let cmgr = yundo_manager(&copt);
            let mut ropt = yrs::undo::Options::<()>::default();
            ropt.capture_timeout_millis = 0;
            let mut rmgr: yrs::undo::UndoManager<()> = yrs::undo::UndoManager::with_options(ropt);
            let c_scopes = [cd.text, cd.arr, cd.map, cd.xml];
            for i in 0..4 {
                if case.scope & (1 << i) != 0 {
                    yundo_manager_add_scope(cmgr, cd.doc, c_scopes[i]);
                    match i {
                        0 => rmgr.expand_scope(&rdoc, &roots.text),
                        1 => rmgr.expand_scope(&rdoc, &roots.arr),
                        2 => rmgr.expand_scope(&rdoc, &roots.map),
                        _ => rmgr.expand_scope(&rdoc, &roots.xml),
                    }
                }
            }
            // some content to point into, written through both APIs
            {
                let prelude: Vec<Resolved> = vec![
                    Resolved { path: vec![Seg::Root(ROOT_TEXT)], cop: COp::TextInsert { idx: 0, s: "ab\u{e9}\u{4e16}\u{1F30D}cd".into(), attrs: None, push: false }, target: Some(Out::YText(roots.text.clone())) },
                    Resolved { path: vec![Seg::Root(ROOT_ARRAY)], cop: COp::ArrInsert { idx: 0, vals: (1..=4).map(|i| CVal::Any(AnyV::num(i as f64))).collect(), via: 0 }, target: Some(Out::YArray(roots.arr.clone())) },
                    Resolved { path: vec![Seg::Root(ROOT_MAP)], cop: COp::MapSet { key: MAP_KEYS[0].to_string(), v: CVal::Any(AnyV::Str("v0".into())) }, target: Some(Out::YMap(roots.map.clone())) },
                    Resolved { path: vec![Seg::Root(ROOT_MAP)], cop: COp::MapSet { key: MAP_KEYS[1].to_string(), v: CVal::Any(AnyV::num(1.0)) }, target: Some(Out::YMap(roots.map.clone())) },
                ];
                let mut rtxn = rdoc.transact_mut();
                let ctxn = cd.write();
                let mut res = Ok(());
                for r in prelude.iter() {
                    apply_real(&mut rtxn, r, kind);
                    if let Err(e) = apply_c(&cd, ctxn, &r.path, &r.cop) {
                        res = Err(Fail { sig: format!("c19/apply/{}", cop_name(&r.cop)), msg: format!("prelude {:?}: {}", r.cop, e) });
                        break;
                    }
                }
                drop(rtxn);
                ytransaction_commit(ctxn);
                res?;
            }
            let mut stickies: Vec<(*mut YStickyIndex, yrs::StickyIndex)> = Vec::new();
            let mut snapshots: Vec<(Vec<u8>, Vec<u8>)> = Vec::new();
            let mut quotes = 0usize;
            let mut weak_kinds: BTreeMap<String, u8> = BTreeMap::new();
            let mut interesting = 0usize;
            let mut undone = false;
            let result = (|| -> Result<(), Fail> {
                for (si, step) in case.steps.iter().enumerate() {
                    let when = format!("after step {} {:?}", si, step);
                    match step {
                        AStep::Edit { origin, ops } => {
                            let ob = origin.map(origin_bytes);
                            let mut rtxn = match &ob {
                                Some(o) => rdoc.transact_mut_with(o.as_slice()),
                                None => rdoc.transact_mut(),
                            };
                            let ctxn = match &ob {
                                Some(o) => cd.write_with(o),
                                None => cd.write(),
                            };
                            let mut res = Ok(());
                            for op in ops {
                                let Some(mut r) = resolve(&rtxn, &roots, op, &mut alloc) else { continue };
                                single_attr(&mut r.cop);
                                if !c_supports(&r.cop, is_xml_text(&r)) {
                                    continue;
                                }
                                apply_real(&mut rtxn, &r, kind);
                                if let Err(e) = apply_c(&cd, ctxn, &r.path, &r.cop) {
                                    res = Err(Fail { sig: format!("c19/apply/{}", cop_name(&r.cop)), msg: format!("{}: {:?} at {:?}: {}", when, r.cop, r.path, e) });
                                    break;
                                }
                            }
                            drop(rtxn);
                            ytransaction_commit(ctxn);
                            res?;
                        }
                        AStep::StickyMake { root, at, after } => {
                            let (cb, rb): (BranchP, BranchPtr) = match root % 3 {
                                0 => (cd.text, BranchPtr::from(AsRef::<Branch>::as_ref(&roots.text))),
                                1 => (cd.arr, BranchPtr::from(AsRef::<Branch>::as_ref(&roots.arr))),
                                _ => (cd.xml, BranchPtr::from(AsRef::<Branch>::as_ref(&roots.xml))),
                            };
                            let rtxn = rdoc.transact_mut();
                            // an index the element/character boundaries of which are valid in both offset kinds
                            let len = match root % 3 {
                                0 => {
                                    let units = text_units(&rtxn, &roots.text, 0);
                                    let k = pick(*at, units.len() + 1);
                                    units_width(&units[..k], kind)
                                }
                                1 => pick(*at, roots.arr.len(&rtxn) as usize + 1) as u32,
                                _ => pick(*at, roots.xml.len(&rtxn) as usize + 1) as u32,
                            };
                            let assoc = if *after { yrs::Assoc::After } else { yrs::Assoc::Before };
                            let want = yrs::StickyIndex::at(&rtxn, rb, len, assoc);
                            drop(rtxn);
                            let ctxn = cd.write();
                            // (documented: assoc >= 0 means "after", assoc < 0 "before": several values of each sign)
                            let assoc_c: i8 = if *after { [0i8, 1, 7, i8::MAX][(*at % 4) as usize] } else { [-1i8, -2, -9, i8::MIN][(*at % 4) as usize] };
                            let got = ysticky_index_from_index(cb, ctxn, len, assoc_c);
                            ytransaction_commit(ctxn);
                            ensure!(got.is_null() == want.is_none(), "c19/sticky/from-index-null", "{}: ysticky_index_from_index(index {}) null = {}, Rust StickyIndex::at = {:?}", when, len, got.is_null(), want);
                            if let Some(want) = want {
                                let mut l = 0u32;
                                let enc = bytes_out(ysticky_index_encode(got, &mut l), l);
                                // (ids of content re-created by undo / redo differ between instances)
                                ensure!(undone || enc.as_deref() == Some(want.encode_v1().as_slice()), "c19/sticky/encode", "{}: ysticky_index_encode = {:?}, Rust encode_v1 = {:?} ({:?})", when, enc, want.encode_v1(), want);
                                let a = ysticky_index_assoc(got);
                                ensure!((a >= 0) == *after, "c19/sticky/assoc", "{}: ysticky_index_assoc = {} for an index made with after = {}", when, a, after);
                                let js = c_string(ysticky_index_to_json(got));
                                let wj = serde_json::to_string(&want).ok();
                                ensure!(undone || js.as_deref().map(json_value) == wj.as_deref().map(json_value), "c19/sticky/to-json", "{}: ysticky_index_to_json = {:?}, Rust = {:?}", when, js, wj);
                                stickies.push((got, want));
                                interesting += 1;
                                st.hit("sticky_made");
                            }
                        }
                        AStep::StickyRead { which } => {
                            if !stickies.is_empty() {
                                let (cp, rp) = &stickies[*which as usize % stickies.len()];
                                let want = rp.get_offset(&rdoc.transact()).map(|o| (r_branch_id(&o.branch), o.index));
                                let ctxn = cd.read();
                                let mut ob: BranchP = std::ptr::null_mut();
                                let mut oi: u32 = u32::MAX;
                                ysticky_index_read(*cp, ctxn, &mut ob, &mut oi);
                                ytransaction_commit(ctxn);
                                let got = if ob.is_null() { None } else { Some((c_branch_id(ob), oi)) };
                                ensure!(got == want, "c19/sticky/read", "{}: ysticky_index_read = {:?}, Rust get_offset = {:?} ({:?})", when, got, want, rp);
                                interesting += 1;
                                st.hit(if want.is_some() { "sticky_read" } else { "sticky_read_none" });
                            }
                        }
                        AStep::StickyCodec { which } => {
                            if !stickies.is_empty() {
                                let (cp, rp) = &stickies[*which as usize % stickies.len()];
                                let mut l = 0u32;
                                let p = ysticky_index_encode(*cp, &mut l);
                                let original = std::slice::from_raw_parts(p as *const u8, l as usize).to_vec();
                                let back = ysticky_index_decode(p, l);
                                ybinary_destroy(p, l);
                                ensure!(!back.is_null(), "c19/sticky/decode", "{}: ysticky_index_decode rejects what ysticky_index_encode wrote ({:?})", when, rp);
                                let mut l2 = 0u32;
                                let again = bytes_out(ysticky_index_encode(back, &mut l2), l2);
                                ysticky_index_destroy(back);
                                ensure!(again.as_deref() == Some(original.as_slice()), "c19/sticky/decode", "{}: decode(encode(index)) encodes to {:?}, expected {:?}", when, again, original);
                                let js = ysticky_index_to_json(*cp);
                                let back = ysticky_index_from_json(js);
                                ystring_destroy(js);
                                ensure!(!back.is_null(), "c19/sticky/from-json", "{}: ysticky_index_from_json rejects what ysticky_index_to_json wrote ({:?})", when, rp);
                                let mut l3 = 0u32;
                                let again = bytes_out(ysticky_index_encode(back, &mut l3), l3);
                                ysticky_index_destroy(back);
                                ensure!(again.as_deref() == Some(original.as_slice()), "c19/sticky/from-json", "{}: from_json(to_json(index)) encodes to {:?}, expected {:?}", when, again, original);
                            }
                        }
                        AStep::Undo => {
                            let (g, w) = (yundo_manager_undo(cmgr), rmgr.undo_blocking());
                            ensure!((g == Y_TRUE) == w, "c19/undo/undo-return", "{}: yundo_manager_undo = {}, Rust undo = {}", when, g, w);
                            if w {
                                interesting += 1;
                                undone = true;
                                st.hit("undo_done");
                            }
                        }
                        AStep::Redo => {
                            let (g, w) = (yundo_manager_redo(cmgr), rmgr.redo_blocking());
                            ensure!((g == Y_TRUE) == w, "c19/undo/redo-return", "{}: yundo_manager_redo = {}, Rust redo = {}", when, g, w);
                            if w {
                                interesting += 1;
                                undone = true;
                                st.hit("redo_done");
                            }
                        }
                        AStep::UndoClear => {
                            yundo_manager_clear(cmgr);
                            rmgr.clear_all();
                        }
                        AStep::UndoStop => {
                            yundo_manager_stop(cmgr);
                            rmgr.reset();
                        }
                        AStep::AddOrigin(o) => {
                            let ob = origin_bytes(*o);
                            yundo_manager_add_origin(cmgr, ob.len() as u32, ob.as_ptr() as *const _);
                            rmgr.include_origin(ob.as_slice());
                        }
                        AStep::RemoveOrigin(o) => {
                            let ob = origin_bytes(*o);
                            yundo_manager_remove_origin(cmgr, ob.len() as u32, ob.as_ptr() as *const _);
                            rmgr.exclude_origin(ob.as_slice());
                        }
                        AStep::Snapshot => {
                            let ctxn = cd.read();
                            let mut l = 0u32;
                            let got = bytes_out(ytransaction_snapshot(ctxn, &mut l), l);
                            ytransaction_commit(ctxn);
                            let want = rdoc.transact().snapshot().encode_v1();
                            let Some(got) = got else { fail!("c19/snapshot/encode", "{}: ytransaction_snapshot returned null", when) };
                            ensure!(undone || got == want, "c19/snapshot/encode", "{}: ytransaction_snapshot = {:?}, Rust snapshot().encode_v1() = {:?}", when, got, want);
                            ensure!(yrs::Snapshot::decode_v1(&got).is_ok(), "c19/snapshot/encode", "{}: ytransaction_snapshot = {:?} does not decode", when, got);
                            snapshots.push((got, want));
                        }
                        AStep::FromSnapshot { which, v2 } => {
                            if !snapshots.is_empty() {
                                let (s, rs) = &snapshots[*which as usize % snapshots.len()];
                                let snap = yrs::Snapshot::decode_v1(rs).unwrap();
                                let want: Result<Vec<u8>, String> = {
                                    let t = rdoc.transact();
                                    if *v2 {
                                        let mut e = yrs::updates::encoder::EncoderV2::new();
                                        t.encode_state_from_snapshot(&snap, &mut e).map(|_| yrs::updates::encoder::Encoder::to_vec(e)).map_err(|e| e.to_string())
                                    } else {
                                        let mut e = yrs::updates::encoder::EncoderV1::new();
                                        t.encode_state_from_snapshot(&snap, &mut e).map(|_| yrs::updates::encoder::Encoder::to_vec(e)).map_err(|e| e.to_string())
                                    }
                                };
                                let ctxn = cd.read();
                                let mut l = 0u32;
                                let got = if *v2 { bytes_out(ytransaction_encode_state_from_snapshot_v2(ctxn, s.as_ptr() as *const _, s.len() as u32, &mut l), l) } else { bytes_out(ytransaction_encode_state_from_snapshot_v1(ctxn, s.as_ptr() as *const _, s.len() as u32, &mut l), l) };
                                ytransaction_commit(ctxn);
                                match (&got, &want) {
                                    (None, Err(_)) => {}
                                    (Some(g), Ok(w)) => {
                                        if !undone {
                                            match same_update(g, w, *v2) {
                                                Ok(true) => {}
                                                Ok(false) => fail!("c19/snapshot/state", "{}: state at the snapshot produced by the C API differs from the Rust one ({} vs {} bytes)", when, g.len(), w.len()),
                                                Err(e) => fail!("c19/snapshot/state", "{}: {}", when, e),
                                            }
                                        }
                                        // both rebuild the same past document
                                        let rebuild = |bytes: &[u8]| -> Result<Node, String> {
                                            let fresh = make_doc(78, case.utf16, true, false);
                                            let fr = Roots::declare(&fresh);
                                            let u = if *v2 { Update::decode_v2(bytes) } else { Update::decode_v1(bytes) }.map_err(|e| e.to_string())?;
                                            fresh.transact_mut().apply_update(u).map_err(|e| e.to_string())?;
                                            let d = dump_doc(&fresh.transact(), &fr);
                                            Ok(d)
                                        };
                                        match (rebuild(g), rebuild(w)) {
                                            (Ok(a), Ok(b)) => {
                                                if a != b {
                                                    fail!("c19/snapshot/rebuild", "{}: the document at the snapshot rebuilt from the C API differs: {}", when, first_diff(&a, &b).unwrap_or_default());
                                                }
                                            }
                                            (Err(e), _) => fail!("c19/snapshot/rebuild", "{}: state from the C API cannot be applied: {}", when, e),
                                            (_, Err(_)) => {}
                                        }
                                        interesting += 1;
                                        st.hit("state_from_snapshot");
                                    }
                                    _ => fail!("c19/snapshot/state-null", "{}: C API returned {:?}, Rust returned {:?}", when, got.as_ref().map(|g| g.len()), want.as_ref().map(|w| w.len())),
                                }
                            }
                        }
                        AStep::Quote { kind: qk, a, b, sk, ek, key } => {
                            let key = format!("w{}", key);
                            let mut arena = Arena::default();
                            let mut rtxn = rdoc.transact_mut();
                            let ctxn = cd.write();
                            let res = (|| -> Result<(), Fail> {
                                if *qk % 3 == 2 {
                                    let src = MAP_KEYS[*a as usize % MAP_KEYS.len()];
                                    let want = roots.map.link(&rtxn, src);
                                    let got = ymap_link(cd.map, ctxn, arena.cstr(src));
                                    ensure!(got.is_null() == want.is_none(), "c19/weak/link-null", "{}: ymap_link({:?}) null = {}, Rust link is_none = {}", when, src, got.is_null(), want.is_none());
                                    if let Some(w) = want {
                                        roots.map.insert(&mut rtxn, key.clone(), w);
                                        let cell = yinput_weak(got);
                                        let cp = arena.cell_ptr(cell);
                                        ymap_insert(cd.map, ctxn, arena.cstr(&key), cp);
                                        weak_kinds.insert(key.clone(), *qk % 3);
                                        st.hit(["quote_text", "quote_array", "link_map"][(*qk % 3) as usize]);
                                        quotes += 1;
                                    }
                                    return Ok(());
                                }
                                // boundaries at unit / element borders
                                let offs: Vec<u32> = if *qk % 3 == 0 {
                                    let units = text_units(&rtxn, &roots.text, 0);
                                    (0..=units.len()).map(|k| units_width(&units[..k], kind)).collect()
                                } else {
                                    (0..=roots.arr.len(&rtxn)).collect()
                                };
                                let n = offs.len() - 1;
                                if n == 0 {
                                    return Ok(());
                                }
                                let ia = pick(*a, n);
                                let mut ib = ia + pick(*b, n - ia);
                                // a well-formed range: at least the boundary elements themselves fit in
                                let exclusive = (sk % 3 == 1) as usize + (ek % 3 == 1) as usize;
                                if sk % 3 != 2 && ek % 3 != 2 && ib < ia + exclusive {
                                    ib = (ia + exclusive).min(n - 1);
                                    if ib < ia + exclusive {
                                        return Ok(());
                                    }
                                }
                                let (mut s, mut e) = (offs[ia], offs[ib]);
                                // an index that sticks to the right side of an element names its last unit (UTF-16 offsets)
                                let tail = |i: usize| if kind == OffsetKind::Utf16 { offs[i + 1] - offs[i] - 1 } else { 0 };
                                if *sk % 3 == 1 {
                                    s += tail(ia);
                                }
                                if *ek % 3 == 0 {
                                    e += tail(ib);
                                }
                                let sb = match sk % 3 {
                                    0 => std::ops::Bound::Included(s),
                                    1 => std::ops::Bound::Excluded(s),
                                    _ => std::ops::Bound::Unbounded,
                                };
                                let eb = match ek % 3 {
                                    0 => std::ops::Bound::Included(e),
                                    1 => std::ops::Bound::Excluded(e),
                                    _ => std::ops::Bound::Unbounded,
                                };
                                let (mut cs, mut ce) = (s, e);
                                let ps: *mut u32 = if sk % 3 == 2 { std::ptr::null_mut() } else { &mut cs };
                                let pe: *mut u32 = if ek % 3 == 2 { std::ptr::null_mut() } else { &mut ce };
                                let (sx, ex) = ((sk % 3 == 1) as i8, (ek % 3 == 1) as i8);
                                if *qk % 3 == 0 {
                                    let want = yrs::Quotable::quote(&roots.text, &rtxn, (sb, eb));
                                    let got = ytext_quote(cd.text, ctxn, ps, pe, sx, ex);
                                    ensure!(got.is_null() == want.is_err(), "c19/weak/quote-null", "{}: ytext_quote null = {}, Rust quote is_err = {}", when, got.is_null(), want.is_err());
                                    if let Ok(w) = want {
                                        roots.map.insert(&mut rtxn, key.clone(), w);
                                        let cell = yinput_weak(got);
                                        let cp = arena.cell_ptr(cell);
                                        ymap_insert(cd.map, ctxn, arena.cstr(&key), cp);
                                        weak_kinds.insert(key.clone(), *qk % 3);
                                        st.hit(["quote_text", "quote_array", "link_map"][(*qk % 3) as usize]);
                                        quotes += 1;
                                    }
                                } else {
                                    let want = yrs::Quotable::quote(&roots.arr, &rtxn, (sb, eb));
                                    let got = yarray_quote(cd.arr, ctxn, ps, pe, sx, ex);
                                    ensure!(got.is_null() == want.is_err(), "c19/weak/quote-null", "{}: yarray_quote null = {}, Rust quote is_err = {}", when, got.is_null(), want.is_err());
                                    if let Ok(w) = want {
                                        roots.map.insert(&mut rtxn, key.clone(), w);
                                        let cell = yinput_weak(got);
                                        let cp = arena.cell_ptr(cell);
                                        ymap_insert(cd.map, ctxn, arena.cstr(&key), cp);
                                        weak_kinds.insert(key.clone(), *qk % 3);
                                        st.hit(["quote_text", "quote_array", "link_map"][(*qk % 3) as usize]);
                                        quotes += 1;
                                    }
                                }
                                Ok(())
                            })();
                            drop(rtxn);
                            ytransaction_commit(ctxn);
                            res?;
                        }
                        AStep::ForceGc => {
                            let ctxn = cd.write();
                            ytransaction_force_gc(ctxn);
                            ytransaction_commit(ctxn);
                            rdoc.transact_mut().gc(None);
                        }
                    }
                    // state of both sides
                    let (ul, rl) = (yundo_manager_undo_stack_len(cmgr), yundo_manager_redo_stack_len(cmgr));
                    ensure!(
                        (ul as usize, rl as usize) == (rmgr.undo_stack().len(), rmgr.redo_stack().len()),
                        "c19/undo/stack-len",
                        "{}: C undo/redo stack lengths ({}, {}) differ from the Rust ones ({}, {})",
                        when,
                        ul,
                        rl,
                        rmgr.undo_stack().len(),
                        rmgr.redo_stack().len()
                    );
                    // undo / redo walk a hash set of items: the ids of re-created items follow the
                    // hash order of the instance, so from the first successful undo on only the
                    // extent of the block store (clocks used, amount deleted) is compared
                    let (x, y) = if undone { (blocks_summary(&*cd.doc), blocks_summary(&rdoc)) } else { (blocks_line(&*cd.doc), blocks_line(&rdoc)) };
                    ensure!(x == y, "c19/aux/blocks", "{}: block store of the C-driven document {:?} differs from the Rust-driven one {:?}", when, x, y);
                    let ctxn = cd.read();
                    let d_c = dump_doc(&*ctxn, &croots);
                    let weak_res = check_weak_reads(&cd, ctxn, &croots, &weak_kinds, &when);
                    ytransaction_commit(ctxn);
                    let d_r = dump_doc(&rdoc.transact(), &roots);
                    if d_c != d_r {
                        fail!("c19/aux/content", "{}: {}", when, first_diff(&d_c, &d_r).unwrap_or_default());
                    }
                    weak_res?;
                }
                Ok(())
            })();
            for (p, _) in stickies.drain(..) {
                ysticky_index_destroy(p);
            }
            yundo_manager_destroy(cmgr);
            if interesting + quotes >= 2 {
                st.nt();
            }
            st.add("quotations", quotes as u64);
            result
        }
    }
}

/// the quotations stored in the root map, read through the C API and through the Rust API
unsafe fn check_weak_reads(cd: &CDoc, ctxn: TxnP, croots: &Roots, kinds: &BTreeMap<String, u8>, when: &str) -> Result<(), Fail> {
    let mut arena = Arena::default();
    let t = &*ctxn;
    for (k, v) in croots.map.iter(t) {
        let Out::YWeakLink(w) = v else { continue };
        let Some(COut::Shared(tag, b)) = take_out(ymap_get(cd.map, ctxn, arena.cstr(k))) else {
            fail!("c19/weak/get", "{}: ymap_get({:?}) does not return the weak link", when, k);
        };
        ensure!(tag == Y_WEAK_LINK && ytype_kind(b) == Y_WEAK_LINK, "c19/weak/kind", "{}: entry {:?} has tag {} / kind {}", when, k, tag, ytype_kind(b));
        // which collection it quotes decides the reader
        // text quotations are read as strings, array quotations by iterator, map links by deref
        let Some(src_kind) = kinds.get(&*k).copied() else { continue };
        match src_kind {
            0 => {
                let typed: yrs::WeakRef<yrs::TextRef> = yrs::WeakRef::from(w.clone());
                let want = typed.get_string(t);
                let got = c_string(yweak_string(b, ctxn));
                ensure!(got.as_deref() == Some(want.as_str()), "c19/weak/string", "{}: yweak_string({:?}) = {:?}, Rust get_string = {:?}", when, k, got, want);
            }
            1 => {
                let typed: yrs::WeakRef<yrs::ArrayRef> = yrs::WeakRef::from(w.clone());
                let want: Vec<String> = typed.unquote(t).map(|o| r_image(&o)).collect();
                let it = yweak_iter(b, ctxn);
                let mut got = Vec::new();
                while let Some(o) = take_out(yweak_iter_next(it)) {
                    got.push(c_image(&o));
                    if got.len() > want.len() + 4 {
                        break;
                    }
                }
                yweak_iter_destroy(it);
                ensure!(got == want, "c19/weak/iter", "{}: yweak_iter({:?}) = {:?}, Rust unquote = {:?}", when, k, got, want);
            }
            _ => {
                let typed: yrs::WeakRef<yrs::MapRef> = yrs::WeakRef::from(w.clone());
                let want = typed.try_deref_value(t).map(|o| r_image(&o));
                let got = take_out(yweak_deref(b, ctxn)).map(|o| c_image(&o));
                ensure!(got == want, "c19/weak/deref", "{}: yweak_deref({:?}) = {:?}, Rust try_deref_value = {:?}", when, k, got, want);
            }
        }
    }
    Ok(())
}

// ------------------------------------------------------------------------------------------------
// part 4: observers
// ------------------------------------------------------------------------------------------------

pub struct EventsPart;

type Log = Vec<String>;

unsafe fn c_path(p: *mut YPathSegment, len: u32) -> String {
    let mut out = Vec::new();
    for i in 0..len as usize {
        let s = p.add(i);
        if (*s).tag == Y_EVENT_PATH_KEY {
            out.push(format!("key:{}", std::ffi::CStr::from_ptr((*s).value.key).to_str().unwrap_or("<invalid utf8>")));
        } else if (*s).tag == Y_EVENT_PATH_INDEX {
            out.push(format!("idx:{}", (*s).value.index));
        } else {
            out.push(format!("unknown-tag:{}", (*s).tag));
        }
    }
    ypath_destroy(p, len);
    out.join("/")
}

fn r_path(p: yrs::types::Path) -> String {
    p.into_iter()
        .map(|s| match s {
            yrs::types::PathSegment::Key(k) => format!("key:{}", k),
            yrs::types::PathSegment::Index(i) => format!("idx:{}", i),
        })
        .collect::<Vec<_>>()
        .join("/")
}

unsafe fn c_text_delta(p: *mut YDeltaOut, len: u32) -> String {
    let mut out = Vec::new();
    for i in 0..len as usize {
        let d = p.add(i);
        let mut attrs: BTreeMap<String, String> = BTreeMap::new();
        for j in 0..(*d).attributes_len as usize {
            let a = (*d).attributes.add(j);
            attrs.insert(std::ffi::CStr::from_ptr((*a).key).to_str().unwrap().to_string(), c_image(&read_out(&(*a).value)));
        }
        let attrs = if (*d).attributes.is_null() { "-".to_string() } else { format!("{:?}", attrs) };
        out.push(match (*d).tag {
            Y_EVENT_CHANGE_ADD => format!("insert {} {}", c_image(&read_out((*d).insert)), attrs),
            Y_EVENT_CHANGE_DELETE => format!("delete {}", (*d).len),
            Y_EVENT_CHANGE_RETAIN => format!("retain {} {}", (*d).len, attrs),
            t => format!("unknown-tag:{}", t),
        });
    }
    ytext_delta_destroy(p, len);
    out.join("; ")
}

fn r_text_delta(d: &[yrs::types::Delta]) -> String {
    let fmt = |a: &Option<Box<yrs::types::Attrs>>| match a {
        Some(a) => format!("{:?}", a.iter().map(|(k, v)| (k.to_string(), r_image(&Out::Any(v.clone())))).collect::<BTreeMap<_, _>>()),
        None => "-".to_string(),
    };
    d.iter()
        .map(|d| match d {
            yrs::types::Delta::Inserted(v, a) => format!("insert {} {}", r_image(v), fmt(a)),
            yrs::types::Delta::Deleted(n) => format!("delete {}", n),
            yrs::types::Delta::Retain(n, a) => format!("retain {} {}", n, fmt(a)),
        })
        .collect::<Vec<_>>()
        .join("; ")
}

unsafe fn c_changes(p: *mut YEventChange, len: u32) -> String {
    let mut out = Vec::new();
    for i in 0..len as usize {
        let c = p.add(i);
        out.push(match (*c).tag {
            Y_EVENT_CHANGE_ADD => {
                let vals: Vec<String> = (0..(*c).len as usize).map(|j| c_image(&read_out((*c).values.add(j)))).collect();
                format!("add {:?}", vals)
            }
            Y_EVENT_CHANGE_DELETE => format!("delete {}", (*c).len),
            Y_EVENT_CHANGE_RETAIN => format!("retain {}", (*c).len),
            t => format!("unknown-tag:{}", t),
        });
    }
    yevent_delta_destroy(p, len);
    out.join("; ")
}

fn r_changes(d: &[yrs::types::Change]) -> String {
    d.iter()
        .map(|c| match c {
            yrs::types::Change::Added(v) => format!("add {:?}", v.iter().map(r_image).collect::<Vec<_>>()),
            yrs::types::Change::Removed(n) => format!("delete {}", n),
            yrs::types::Change::Retain(n) => format!("retain {}", n),
        })
        .collect::<Vec<_>>()
        .join("; ")
}

unsafe fn c_keys(p: *mut YEventKeyChange, len: u32) -> String {
    let mut out: BTreeMap<String, String> = BTreeMap::new();
    for i in 0..len as usize {
        let k = p.add(i);
        let key = std::ffi::CStr::from_ptr((*k).key).to_str().unwrap().to_string();
        let img = |o: *const YOutput| if o.is_null() { "-".to_string() } else { c_image(&read_out(o)) };
        let v = match (*k).tag {
            Y_EVENT_KEY_CHANGE_ADD => format!("add {} -> {}", img((*k).old_value), img((*k).new_value)),
            Y_EVENT_KEY_CHANGE_DELETE => format!("delete {} -> {}", img((*k).old_value), img((*k).new_value)),
            Y_EVENT_KEY_CHANGE_UPDATE => format!("update {} -> {}", img((*k).old_value), img((*k).new_value)),
            t => format!("unknown-tag:{}", t),
        };
        out.insert(key, v);
    }
    yevent_keys_destroy(p, len);
    format!("{:?}", out)
}

fn r_keys(k: &std::collections::HashMap<std::sync::Arc<str>, yrs::types::EntryChange>) -> String {
    let out: BTreeMap<String, String> = k
        .iter()
        .map(|(k, v)| {
            (
                k.to_string(),
                match v {
                    yrs::types::EntryChange::Inserted(n) => format!("add - -> {}", r_image(n)),
                    yrs::types::EntryChange::Removed(o) => format!("delete {} -> -", r_image(o)),
                    yrs::types::EntryChange::Updated(o, n) => format!("update {} -> {}", r_image(o), r_image(n)),
                },
            )
        })
        .collect();
    format!("{:?}", out)
}

unsafe fn c_event(e: *const YEvent) -> String {
    let mut l = 0u32;
    match (*e).tag {
        Y_TEXT => {
            let ev = &(*e).content.text as *const YTextEvent;
            let t = c_branch_id(ytext_event_target(ev));
            let p = ytext_event_path(ev, &mut l);
            let path = c_path(p, l);
            let d = ytext_event_delta(ev, &mut l);
            format!("text {} @{} delta [{}]", t, path, c_text_delta(d, l))
        }
        Y_ARRAY => {
            let ev = &(*e).content.array as *const YArrayEvent;
            let t = c_branch_id(yarray_event_target(ev));
            let p = yarray_event_path(ev, &mut l);
            let path = c_path(p, l);
            let d = yarray_event_delta(ev, &mut l);
            format!("array {} @{} delta [{}]", t, path, c_changes(d, l))
        }
        Y_MAP => {
            let ev = &(*e).content.map as *const YMapEvent;
            let t = c_branch_id(ymap_event_target(ev));
            let p = ymap_event_path(ev, &mut l);
            let path = c_path(p, l);
            let k = ymap_event_keys(ev, &mut l);
            format!("map {} @{} keys {}", t, path, c_keys(k, l))
        }
        Y_XML_ELEM | Y_XML_FRAG => {
            let ev = &(*e).content.xml_elem as *const YXmlEvent;
            let t = c_branch_id(yxmlelem_event_target(ev));
            let p = yxmlelem_event_path(ev, &mut l);
            let path = c_path(p, l);
            let d = yxmlelem_event_delta(ev, &mut l);
            let delta = c_changes(d, l);
            let k = yxmlelem_event_keys(ev, &mut l);
            format!("xml {} @{} delta [{}] keys {}", t, path, delta, c_keys(k, l))
        }
        Y_XML_TEXT => {
            let ev = &(*e).content.xml_text as *const YXmlTextEvent;
            let t = c_branch_id(yxmltext_event_target(ev));
            let p = yxmltext_event_path(ev, &mut l);
            let path = c_path(p, l);
            let d = yxmltext_event_delta(ev, &mut l);
            let delta = c_text_delta(d, l);
            let k = yxmltext_event_keys(ev, &mut l);
            format!("xmltext {} @{} delta [{}] keys {}", t, path, delta, c_keys(k, l))
        }
        Y_WEAK_LINK => "weak".to_string(),
        t => format!("unknown-event-tag:{}", t),
    }
}

fn r_event(txn: &yrs::TransactionMut, e: &yrs::types::Event) -> String {
    use yrs::types::Event;
    match e {
        Event::Text(e) => format!("text {} @{} delta [{}]", r_branch_id(AsRef::<Branch>::as_ref(e.target())), r_path(e.path()), r_text_delta(e.delta(txn))),
        Event::Array(e) => format!("array {} @{} delta [{}]", r_branch_id(AsRef::<Branch>::as_ref(e.target())), r_path(e.path()), r_changes(e.delta(txn))),
        Event::Map(e) => format!("map {} @{} keys {}", r_branch_id(AsRef::<Branch>::as_ref(e.target())), r_path(e.path()), r_keys(e.keys(txn))),
        Event::XmlFragment(e) => {
            let t = match e.target() {
                XmlOut::Element(x) => r_branch_id(AsRef::<Branch>::as_ref(x)),
                XmlOut::Fragment(x) => r_branch_id(AsRef::<Branch>::as_ref(x)),
                XmlOut::Text(x) => r_branch_id(AsRef::<Branch>::as_ref(x)),
            };
            format!("xml {} @{} delta [{}] keys {}", t, r_path(e.path()), r_changes(e.delta(txn)), r_keys(e.keys(txn)))
        }
        Event::XmlText(e) => format!("xmltext {} @{} delta [{}] keys {}", r_branch_id(AsRef::<Branch>::as_ref(e.target())), r_path(e.path()), r_text_delta(e.delta(txn)), r_keys(e.keys(txn))),
        Event::Weak(_) => "weak".to_string(),
    }
}

extern "C" fn deep_cb(state: *mut std::ffi::c_void, len: u32, events: *const YEvent) {
    unsafe {
        let log = &mut *(state as *mut Log);
        for i in 0..len as usize {
            log.push(c_event(events.add(i)));
        }
    }
}

extern "C" fn text_cb(state: *mut std::ffi::c_void, e: *const YTextEvent) {
    unsafe {
        let log = &mut *(state as *mut Log);
        let mut l = 0u32;
        let d = ytext_event_delta(e, &mut l);
        log.push(format!("shallow text {} delta [{}]", c_branch_id(ytext_event_target(e)), c_text_delta(d, l)));
    }
}

extern "C" fn array_cb(state: *mut std::ffi::c_void, e: *const YArrayEvent) {
    unsafe {
        let log = &mut *(state as *mut Log);
        let mut l = 0u32;
        let d = yarray_event_delta(e, &mut l);
        log.push(format!("shallow array {} delta [{}]", c_branch_id(yarray_event_target(e)), c_changes(d, l)));
    }
}

extern "C" fn map_cb(state: *mut std::ffi::c_void, e: *const YMapEvent) {
    unsafe {
        let log = &mut *(state as *mut Log);
        let mut l = 0u32;
        let k = ymap_event_keys(e, &mut l);
        log.push(format!("shallow map {} keys {}", c_branch_id(ymap_event_target(e)), c_keys(k, l)));
    }
}

extern "C" fn xml_cb(state: *mut std::ffi::c_void, e: *const YXmlEvent) {
    unsafe {
        let log = &mut *(state as *mut Log);
        let mut l = 0u32;
        let d = yxmlelem_event_delta(e, &mut l);
        let delta = c_changes(d, l);
        let k = yxmlelem_event_keys(e, &mut l);
        log.push(format!("shallow xml {} delta [{}] keys {}", c_branch_id(yxmlelem_event_target(e)), delta, c_keys(k, l)));
    }
}

impl Prop for EventsPart {
    type Case = Case;
    fn name(&self) -> &'static str {
        "events"
    }
    fn cases(&self, tier: Tier) -> u64 {
        tier.pick(150_000, 1_000_000)
    }
    fn strategy(&self, tier: Tier) -> BoxedStrategy<Case> {
        OpsPart.strategy(tier)
    }

    fn check(&self, case: &Case, st: &mut CaseStats) -> Result<(), Fail> {
        use yrs::{DeepObservable, Observable};
        unsafe {
            let rdoc = make_doc(1, case.utf16, case.skip_gc, case.cleanup);
            let roots = Roots::declare(&rdoc);
            let cd = CDoc::new(1, case.utf16, case.skip_gc, case.cleanup);
            let kind = cd.kind;
            let mut alloc = Alloc::default();
            // C side: one log per observer, in registration order
            let mut clogs: Vec<Box<Log>> = (0..8).map(|_| Box::new(Vec::new())).collect();
            let mut subs = Vec::new();
            let sp = |l: &mut Box<Log>| &mut **l as *mut Log as *mut std::ffi::c_void;
            subs.push(yobserve_deep(cd.text, sp(&mut clogs[0]), deep_cb));
            subs.push(yobserve_deep(cd.arr, sp(&mut clogs[1]), deep_cb));
            subs.push(yobserve_deep(cd.map, sp(&mut clogs[2]), deep_cb));
            subs.push(yobserve_deep(cd.xml, sp(&mut clogs[3]), deep_cb));
            subs.push(ytext_observe(cd.text, sp(&mut clogs[4]), text_cb));
            subs.push(yarray_observe(cd.arr, sp(&mut clogs[5]), array_cb));
            subs.push(ymap_observe(cd.map, sp(&mut clogs[6]), map_cb));
            subs.push(yxmlelem_observe(cd.xml, sp(&mut clogs[7]), xml_cb));
            // Rust side
            let rlogs: Vec<std::sync::Arc<std::sync::Mutex<Log>>> = (0..8).map(|_| Default::default()).collect();
            let deep = |l: &std::sync::Arc<std::sync::Mutex<Log>>| {
                let l = l.clone();
                move |txn: &yrs::TransactionMut, events: &yrs::types::Events| {
                    let mut g = l.lock().unwrap();
                    for e in events.iter() {
                        g.push(r_event(txn, e));
                    }
                }
            };
            let _d0 = roots.text.observe_deep(deep(&rlogs[0]));
            let _d1 = roots.arr.observe_deep(deep(&rlogs[1]));
            let _d2 = roots.map.observe_deep(deep(&rlogs[2]));
            let _d3 = roots.xml.observe_deep(deep(&rlogs[3]));
            let l4 = rlogs[4].clone();
            let _s4 = roots.text.observe(move |txn, e| l4.lock().unwrap().push(format!("shallow text {} delta [{}]", r_branch_id(AsRef::<Branch>::as_ref(e.target())), r_text_delta(e.delta(txn)))));
            let l5 = rlogs[5].clone();
            let _s5 = roots.arr.observe(move |txn, e| l5.lock().unwrap().push(format!("shallow array {} delta [{}]", r_branch_id(AsRef::<Branch>::as_ref(e.target())), r_changes(e.delta(txn)))));
            let l6 = rlogs[6].clone();
            let _s6 = roots.map.observe(move |txn, e| l6.lock().unwrap().push(format!("shallow map {} keys {}", r_branch_id(AsRef::<Branch>::as_ref(e.target())), r_keys(e.keys(txn)))));
            let l7 = rlogs[7].clone();
            let _s7 = roots.xml.observe(move |txn, e| {
                let t = match e.target() {
                    XmlOut::Element(x) => r_branch_id(AsRef::<Branch>::as_ref(x)),
                    XmlOut::Fragment(x) => r_branch_id(AsRef::<Branch>::as_ref(x)),
                    XmlOut::Text(x) => r_branch_id(AsRef::<Branch>::as_ref(x)),
                };
                l7.lock().unwrap().push(format!("shallow xml {} delta [{}] keys {}", t, r_changes(e.delta(txn)), r_keys(e.keys(txn))))
            });
            let names = ["deep(text)", "deep(array)", "deep(map)", "deep(xml)", "ytext_observe", "yarray_observe", "ymap_observe", "yxmlelem_observe"];
            let mut events_seen = 0usize;
            let result = (|| -> Result<(), Fail> {
                for (ti, ops) in case.txns.iter().enumerate() {
                    {
                        let mut rtxn = rdoc.transact_mut();
                        let ctxn = cd.write();
                        let mut res: Result<(), Fail> = Ok(());
                        for op in ops.iter() {
                            let Some(mut r) = resolve(&rtxn, &roots, op, &mut alloc) else { continue };
                            single_attr(&mut r.cop);
                            if !c_supports(&r.cop, is_xml_text(&r)) {
                                continue;
                            }
                            apply_real(&mut rtxn, &r, kind);
                            if let Err(e) = apply_c(&cd, ctxn, &r.path, &r.cop) {
                                res = Err(Fail { sig: format!("c19/apply/{}", cop_name(&r.cop)), msg: format!("txn {} {:?} at {:?}: {}", ti, r.cop, r.path, e) });
                                break;
                            }
                        }
                        drop(rtxn);
                        ytransaction_commit(ctxn);
                        res?;
                    }
                    for i in 0..8 {
                        // events of equally deep types are delivered in the hash order of the instance
                        let mut want: Log = std::mem::take(&mut *rlogs[i].lock().unwrap());
                        let mut got: Log = std::mem::take(&mut *clogs[i]);
                        want.sort();
                        got.sort();
                        events_seen += want.len();
                        if got != want {
                            let k = (0..got.len().max(want.len())).find(|k| got.get(*k) != want.get(*k)).unwrap_or(0);
                            fail!(
                                format!("c19/events/{}", names[i]),
                                "txn {}: observer {} reported {} event(s) through the C API and {} through the Rust API; first difference at #{}: C {:?}, Rust {:?}",
                                ti,
                                names[i],
                                got.len(),
                                want.len(),
                                k,
                                got.get(k),
                                want.get(k)
                            );
                        }
                    }
                }
                Ok(())
            })();
            for s in subs {
                yunobserve(s);
            }
            drop(clogs);
            if events_seen >= 3 {
                st.nt();
            }
            st.add("events_compared", events_seen as u64);
            result
        }
    }
}
