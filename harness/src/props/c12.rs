//! C12 — undo/redo are inverses of the captured local changes and touch nothing else.
//!
//! Part "isolated": no foreign edit touches the scope; the harness owns the clock and therefore
//! the capture groups; the sequence of scope dumps at group boundaries is the model.
//! Part "mixed": uniquely tagged elements, untracked origins and a second replica edit the same
//! sequences; frame rules (own insertions gone, foreign elements untouched, own deletions back,
//! other types untouched, replicas converge).

use crate::dump::*;
use crate::engine::*;
use crate::interp::*;
use crate::ops::*;
use crate::props::c04::visible;
use crate::world::*;
use crate::{ensure, fail};
use proptest::prelude::*;
use serde::{Deserialize, Serialize};
use std::collections::{BTreeMap, BTreeSet};
use std::sync::atomic::{AtomicU64, Ordering};
use std::sync::Arc;
use yrs::undo::Options as UndoOptions;
use yrs::{Transact, UndoManager};

const TIMEOUT: u64 = 500;

fn manager(clock: &Arc<AtomicU64>) -> UndoManager {
    let c = clock.clone();
    UndoManager::with_options(UndoOptions { capture_timeout_millis: TIMEOUT, timestamp: Arc::new(move || c.load(Ordering::SeqCst)), ..Default::default() })
}

fn scope_dump(r: &Replica, scope: u8) -> Node {
    let d = r.dump();
    let Node::Map(m) = d else { return d };
    let keep: &[&str] = match scope % 4 {
        0 => &[ROOT_TEXT],
        1 => &[ROOT_ARRAY, ROOT_MAP],
        2 => &[ROOT_XML, ROOT_TEXT],
        _ => &[ROOT_TEXT, ROOT_ARRAY, ROOT_MAP, ROOT_XML],
    };
    Node::Map(m.into_iter().filter(|(k, _)| keep.contains(&k.as_str())).collect())
}

fn outside_dump(r: &Replica, scope: u8) -> Node {
    let d = r.dump();
    let inside = scope_dump(r, scope);
    let (Node::Map(m), Node::Map(i)) = (d, inside) else { return Node::Undefined };
    Node::Map(m.into_iter().filter(|(k, _)| !i.contains_key(k)).collect())
}

fn expand(mgr: &mut UndoManager, r: &Replica, scope: u8) {
    match scope % 4 {
        0 => mgr.expand_scope(&r.doc, &r.roots.text),
        1 => {
            mgr.expand_scope(&r.doc, &r.roots.arr);
            mgr.expand_scope(&r.doc, &r.roots.map);
        }
        2 => {
            mgr.expand_scope(&r.doc, &r.roots.xml);
            mgr.expand_scope(&r.doc, &r.roots.text);
        }
        _ => {
            mgr.expand_scope(&r.doc, &r.roots.text);
            mgr.expand_scope(&r.doc, &r.roots.arr);
            mgr.expand_scope(&r.doc, &r.roots.map);
            mgr.expand_scope(&r.doc, &r.roots.xml);
        }
    }
}


/// first map entry / attribute that `prev` has and `after` lacks: (path of the container, key)
fn absent_entries(after: &Node, prev: &Node, path: &mut Vec<Seg>, acc: &mut Vec<(Vec<Seg>, String)>) {
    fn root_name(k: &str) -> &'static str {
        match k {
            ROOT_TEXT => ROOT_TEXT,
            ROOT_ARRAY => ROOT_ARRAY,
            ROOT_MAP => ROOT_MAP,
            _ => ROOT_XML,
        }
    }
    match (after, prev) {
        (Node::Map(a), Node::Map(p)) => {
            for (k, pv) in p.iter() {
                match a.get(k) {
                    None => {
                        if !path.is_empty() {
                            acc.push((path.clone(), k.clone()));
                        }
                    }
                    Some(av) => {
                        path.push(if path.is_empty() { Seg::Root(root_name(k)) } else { Seg::Key(k.clone()) });
                        absent_entries(av, pv, path, acc);
                        path.pop();
                    }
                }
            }
        }
        (Node::Array(a), Node::Array(p)) | (Node::XmlFragment(a), Node::XmlFragment(p)) if a.len() == p.len() => {
            for (i, (av, pv)) in a.iter().zip(p.iter()).enumerate() {
                path.push(Seg::Idx(i));
                absent_entries(av, pv, path, acc);
                path.pop();
            }
        }
        (Node::XmlElement { attrs: aa, children: ac, .. }, Node::XmlElement { attrs: pa, children: pc, .. }) => {
            for k in pa.keys() {
                if !aa.contains_key(k) {
                    acc.push((path.clone(), k.clone()));
                }
            }
            if ac.len() == pc.len() {
                for (i, (av, pv)) in ac.iter().zip(pc.iter()).enumerate() {
                    path.push(Seg::Idx(i));
                    absent_entries(av, pv, path, acc);
                    path.pop();
                }
            }
        }
        (Node::XmlText { attrs: aa, .. }, Node::XmlText { attrs: pa, .. }) => {
            for k in pa.keys() {
                if !aa.contains_key(k) {
                    acc.push((path.clone(), k.clone()));
                }
            }
        }
        _ => {}
    }
}

/// Equal if the order of the elements inside of sequences (text units, array elements, XML
/// children) is disregarded, at every level.
fn same_up_to_order(a: &Node, b: &Node) -> bool {
    fn canon(n: &Node) -> serde_json::Value {
        use serde_json::{json, Value};
        fn sorted(mut v: Vec<Value>) -> Value {
            v.sort_by_key(|x| x.to_string());
            Value::Array(v)
        }
        // format marks are elements of the sequence as well: a mark that lands on the other side
        // of a neighbour shifts an attribute by one element.  Compared: the elements as a
        // multiset, and the set of attribute values that occur at all.
        let units = |us: &Vec<crate::dump::Unit>| -> Value {
            let values = sorted(
                us.iter()
                    .map(|u| match &u.v {
                        crate::dump::UnitV::Ch(c) => json!({"c": c.to_string()}),
                        crate::dump::UnitV::Embed(e) => json!({"e": canon(e)}),
                    })
                    .collect(),
            );
            let mut attrs: Vec<String> = us.iter().flat_map(|u| u.attrs.iter().map(|(k, v)| format!("{}={}", k, serde_json::to_string(v).unwrap_or_default()))).collect();
            attrs.sort();
            attrs.dedup();
            json!({"values": values, "attrs": attrs})
        };
        match n {
            Node::Text(us) => json!({"text": units(us)}),
            Node::XmlText { attrs, units: us } => json!({"xmltext": units(us), "attrs": attrs.iter().map(|(k, v)| (k.clone(), canon(v))).collect::<serde_json::Map<String, Value>>()}),
            Node::Array(v) => json!({"array": sorted(v.iter().map(canon).collect())}),
            Node::XmlFragment(v) => json!({"fragment": sorted(v.iter().map(canon).collect())}),
            Node::XmlElement { tag, attrs, children } => json!({"tag": tag, "attrs": attrs.iter().map(|(k, v)| (k.clone(), canon(v))).collect::<serde_json::Map<String, Value>>(), "children": sorted(children.iter().map(canon).collect())}),
            Node::Map(m) => Value::Object(m.iter().map(|(k, v)| (k.clone(), canon(v))).collect()),
            other => serde_json::to_value(other).unwrap_or(Value::Null),
        }
    }
    canon(a) == canon(b)
}

/// One record per element: tombstones of one key with adjacent clocks are squashed into one block
/// (a re-created value and the value that overwrote it, for example); a stack item may account for
/// a part of such a block only, and `redo` splits it again.
fn chain_elements(chain: &[yrs::verif_hooks::ItemInfo]) -> Vec<yrs::verif_hooks::ItemInfo> {
    let mut out = Vec::new();
    for r in chain.iter() {
        for k in 0..r.len.max(1) {
            let mut e = r.clone();
            e.id = yrs::ID::new(r.id.client, r.id.clock + k);
            e.len = 1;
            out.push(e);
        }
    }
    out
}

/// Known finding G3: the entry that was not restored has, to the right of the value to restore,
/// a tombstone that no stack item accounts for at the moment its group is processed (a later
/// value of the same origin whose undo/redo entry was dropped or already popped) —
/// `ItemPtr::redo` takes it for a foreign conflict and gives up.
fn g3_explains(rep: &Replica, after: &Node, expected: &Node, stacks: &Stacks) -> bool {
    let mut absent = Vec::new();
    absent_entries(after, expected, &mut Vec::new(), &mut absent);
    let txn = rep.doc.transact();
    let all = targets(&txn, &rep.roots);
    for (path, key) in absent {
    let Some(t) = all.iter().find(|t| t.path == path) else { continue };
    let Some(branch) = t.out.try_branch() else { continue };
    let chains = yrs::verif_hooks::branch_map_items(branch);
    let Some((_, chain)) = chains.iter().find(|(k, _)| k.as_ref() == key.as_str()) else { continue };
    let chain = chain_elements(chain);
    for (i, r) in chain.iter().enumerate() {
        if !r.deleted {
            continue;
        }
        // the group that would restore `r`
        let Some(gi) = stacks.undo.iter().position(|d| d.contains(&r.id)) else { continue };
        for t in chain[i + 1..].iter() {
            if t.deleted {
                let accounted = stacks.redo.iter().any(|d| d.contains(&t.id)) || stacks.undo[..=gi].iter().any(|d| d.contains(&t.id));
                if !accounted {
                    return true;
                }
            }
        }
    }
    }
    false
}


/// Is some map entry that a stack item would have to restore blocked by a tombstone to its right
/// that no stack item accounts for (the precondition of known finding G3)?  Evaluated BEFORE an
/// undo call; when it holds the outcome of the call is not predictable by the model.
fn g3_prone(rep: &Replica, stacks: &Stacks) -> bool {
    let txn = rep.doc.transact();
    {
        // every key chain of the store, also those of deleted (restorable) parents
        for chain in yrs::verif_hooks::all_map_chains(yrs::ReadTxn::store(&txn)) {
            let chain = chain_elements(&chain);
            for (i, r) in chain.iter().enumerate() {
                if !r.deleted {
                    continue;
                }
                let Some(gi) = stacks.undo.iter().position(|d| d.contains(&r.id)) else { continue };
                for x in chain[i + 1..].iter() {
                    if x.deleted {
                        let accounted = stacks.redo.iter().any(|d| d.contains(&x.id)) || stacks.undo[..=gi].iter().any(|d| d.contains(&x.id));
                        if !accounted {
                            return true;
                        }
                    }
                }
            }
        }
    }
    false
}

pub struct Stacks {
    pub undo: Vec<yrs::IdSet>,
    pub redo: Vec<yrs::IdSet>,
}

fn stack_deletions(mgr: &UndoManager) -> Stacks {
    Stacks { undo: mgr.undo_stack().iter().map(|i| i.deletions().clone()).collect(), redo: mgr.redo_stack().iter().map(|i| i.deletions().clone()).collect() }
}

// ------------------------------------------------------------------------------------------
// isolated regime
// ------------------------------------------------------------------------------------------

#[derive(Clone, Debug, Serialize, Deserialize)]
pub enum IStep {
    /// tracked edit; `gap` = the clock is advanced far beyond the capture timeout first
    Edit { ops: Vec<Op>, gap: bool },
    Undo,
    Redo,
    Reset,
    Gc,
}

#[derive(Clone, Debug, Serialize, Deserialize)]
pub struct ICase {
    pub cfg: Cfg,
    pub scope: u8,
    pub steps: Vec<IStep>,
    /// undo / redo through the async entry points (`undo().await`) instead of the blocking ones
    #[serde(default)]
    pub async_api: bool,
}

/// drives a future that never has to wait (nobody else holds the document)
pub fn block_on<F: std::future::Future>(f: F) -> F::Output {
    let mut f = std::pin::pin!(f);
    let mut cx = std::task::Context::from_waker(std::task::Waker::noop());
    loop {
        if let std::task::Poll::Ready(v) = f.as_mut().poll(&mut cx) {
            return v;
        }
        std::thread::yield_now();
    }
}

pub struct Isolated;

impl Prop for Isolated {
    type Case = ICase;
    fn name(&self) -> &'static str {
        "isolated"
    }
    fn cases(&self, tier: Tier) -> u64 {
        tier.pick(300_000, 2_000_000)
    }
    fn strategy(&self, tier: Tier) -> BoxedStrategy<ICase> {
        let p = Profile::all();
        let step = prop_oneof![
            8 => (txn_ops(&p, 3), prop::bool::weighted(0.6)).prop_map(|(ops, gap)| IStep::Edit { ops, gap }),
            4 => Just(IStep::Undo),
            3 => Just(IStep::Redo),
            1 => Just(IStep::Reset),
            1 => Just(IStep::Gc),
        ];
        (cfgs_strategy(1..=1, false), any::<bool>(), 0u8..4, prop::collection::vec(step, 2..=tier.pick(22, 36)), prop::bool::weighted(0.3))
            .prop_map(|(mut cfgs, cleanup, scope, steps, async_api)| {
                cfgs[0].cleanup = cleanup;
                ICase { cfg: cfgs.remove(0), scope, steps, async_api }
            })
            .boxed()
    }

    fn check(&self, case: &ICase, st: &mut CaseStats) -> Result<(), Fail> {
        // Known finding G3 makes the rest of a case unpredictable for the model: a stack item whose
        // map entry cannot be restored is dropped silently and the same call goes on with the next
        // one.  Once the precondition of G3 has been seen before an undo call, later disagreements
        // between the dump-sequence model and undo/redo are attributed to G3 (and counted);
        // everything that does not depend on the model (followers, untracked types, forced GC,
        // memory safety) stays in force.
        let tainted = std::cell::Cell::new(false);
        match self.check_inner(case, st, &tainted) {
            Err(f) if tainted.get() && (f.sig.starts_with("c12/isolated/undo-") || f.sig.starts_with("c12/isolated/redo-")) => {
                st.hit("model_disagreements_after_a_g3_precondition");
                Err(Fail::new("c12/isolated/map-entry-not-restored", format!("(after the precondition of known finding G3 had been seen in this case) {}", f.msg)))
            }
            other => other,
        }
    }
}

impl Isolated {
    fn check_inner(&self, case: &ICase, st: &mut CaseStats, tainted: &std::cell::Cell<bool>) -> Result<(), Fail> {
        let rep = Replica::new(case.cfg.clone());
        let clock = Arc::new(AtomicU64::new(10_000));
        let mut mgr = manager(&clock);
        expand(&mut mgr, &rep, case.scope);
        if case.async_api {
            st.hit("cases_through_the_async_entry_points");
        }
        let mut alloc = Alloc::default();
        // model: dumps after each capture group (groups[0] = initial), redo targets
        let mut groups: Vec<Node> = vec![scope_dump(&rep, case.scope)];
        let mut redo: Vec<Node> = Vec::new();
        let mut last_change: u64 = 0;
        let mut force_gap = false;
        let mut g3_possible = false;
        let mut group_keys: Vec<(u8, u8)> = Vec::new();
        let mut undone_deleting = 0;
        let debug = std::env::var("VERIF_DEBUG").is_ok();
        // "undo and redo are ordinary replicated operations": a follower fed with the update events
        // and a peer that pulls by state vector must show what the document shows, after every step
        let fol_ev = Replica::new(Cfg { client: 8001, utf16: case.cfg.utf16, skip_gc: true, cleanup: false });
        let fol_sv = Replica::new(Cfg { client: 8002, utf16: case.cfg.utf16, skip_gc: false, cleanup: false });
        let follow = |when: &str, st: &mut CaseStats| -> Result<(), Fail> {
            let ev = rep.drain();
            for (k, u) in ev.v1.iter().enumerate() {
                let r = if k % 2 == 1 && k < ev.v2.len() { fol_ev.apply(&ev.v2[k], true) } else { fol_ev.apply(u, false) };
                if let Err(e) = r {
                    fail!("c12/isolated/follower-apply-failed", "after {}: update event cannot be applied: {}", when, e);
                }
            }
            let bytes = yrs::ReadTxn::encode_state_as_update_v1(&rep.doc.transact(), &fol_sv.sv());
            if let Err(e) = fol_sv.apply(&bytes, false) {
                fail!("c12/isolated/follower-apply-failed", "after {}: state-vector answer cannot be applied: {}", when, e);
            }
            fol_ev.drain();
            fol_sv.drain();
            let d = rep.dump();
            for (name, f) in [("follower fed with the update events", &fol_ev), ("peer that pulls by state vector", &fol_sv)] {
                ensure!(!f.has_missing(), "c12/isolated/follower-pending", "after {}: the {} reports missing updates", when, name);
                let fd = f.dump();
                if fd != d {
                    fail!("c12/isolated/follower-diverges", "after {}: the {} does not show what the document shows: {}", when, name, first_diff(&fd, &d).unwrap_or_default());
                }
            }
            st.hit("follower_comparisons");
            Ok(())
        };
        for (si, step) in case.steps.iter().enumerate() {
            let when = format!("step {} {:?}", si, step);
            if si > 0 {
                follow(&format!("step {} {:?}", si - 1, case.steps[si - 1]), st)?;
            }
            if debug {
                let txn = rep.doc.transact();
                let b: Vec<String> = yrs::verif_hooks::store_blocks(yrs::ReadTxn::store(&txn)).iter().map(|b| format!("{}#{}+{}{}{}", b.client.get(), b.clock, b.len, if b.deleted { "d" } else { "" }, if b.kind == yrs::verif_hooks::BlockKind::GC { "GC" } else { "" })).collect();
                eprintln!("   blocks {:?}", b);
                drop(txn);
                eprintln!("-- before {}: groups {:?} redo {:?} last_change {} real {}", when, groups.iter().map(|g| g.short()).collect::<Vec<_>>(), redo.len(), last_change, scope_dump(&rep, case.scope).short());
            }
            match step {
                IStep::Edit { ops, gap } => {
                    // Known finding G3 needs a capture group that writes one map key (or XML
                    // attribute) more than once.  Keys are compared by their static index: a
                    // transaction that would write a key already written in the running group
                    // starts a new group (exclusion by construction, counted); two writes of
                    // one key inside of ONE transaction cannot be separated, the case is then
                    // marked and a map entry that is not restored is attributed to G3.
                    let mut keys_here: Vec<(u8, u8)> = Vec::new();
                    for op in ops.iter() {
                        let k = match op {
                            Op::MapSet { key, .. } | Op::MapTryUpdate { key, .. } | Op::MapGetOrInit { key, .. } | Op::MapRemove { key, .. } => Some((0u8, *key % 4)),
                            Op::XmlSetAttr { key, .. } | Op::XmlRemoveAttr { key, .. } => Some((1u8, *key % 3)),
                            Op::MapClear { .. } => Some((2u8, 0)),
                            _ => None,
                        };
                        if let Some(k) = k {
                            let clash = |a: &(u8, u8), b: &(u8, u8)| a == b || (a.0 == 2 && b.0 != 1) || (b.0 == 2 && a.0 != 1);
                            if keys_here.iter().any(|x| clash(x, &k)) {
                                g3_possible = true;
                            }
                            if group_keys.iter().any(|x| clash(x, &k)) && !*gap && !force_gap {
                                force_gap = true;
                                st.hit("gap_forced_to_keep_one_write_per_key_and_group");
                            }
                            keys_here.push(k);
                        }
                    }
                    if *gap || force_gap {
                        group_keys.clear();
                        clock.fetch_add(10 * TIMEOUT, Ordering::SeqCst);
                        force_gap = false;
                    }
                    let now = clock.load(Ordering::SeqCst);
                    let done = {
                        let mut txn = rep.doc.transact_mut();
                        run_ops(&mut txn, &rep.roots, ops, &mut alloc, rep.cfg.kind())
                    };
                    let cur = scope_dump(&rep, case.scope);
                    let changed = cur != *groups.last().unwrap();
                    let scope_roots: Vec<String> = match &cur {
                        Node::Map(m) => m.keys().cloned().collect(),
                        _ => vec![],
                    };
                    let addressed = done.iter().any(|r| matches!(r.path.first(), Some(Seg::Root(n)) if scope_roots.iter().any(|s| s == n)));
                    if !changed && !addressed {
                        // certainly not captured (no tracked type was touched)
                        continue;
                    }
                    let extend = last_change > 0 && now - last_change < TIMEOUT && groups.len() > 1;
                    if !changed {
                        // A tracked type was addressed but shows the same content: the change is
                        // invisible (format marks, insert-then-delete) or did not happen at all.
                        // Whether it was captured is not observable, so the model keeps a superset
                        // (an invisible group may be passed over or consume a call) and both sides
                        // are brought to a definite state: redo history dropped, next edit after a gap.
                        if !redo.is_empty() {
                            redo.clear();
                        }
                        mgr.clear_redo();
                        if !extend {
                            groups.push(cur);
                        }
                        last_change = now;
                        force_gap = true;
                        st.hit("invisible_or_ineffective_tracked_edit");
                        continue;
                    }
                    redo.clear();
                    if extend {
                        *groups.last_mut().unwrap() = cur;
                    } else {
                        groups.push(cur);
                        group_keys.clear();
                    }
                    group_keys.extend(keys_here);
                    last_change = now;
                }
                IStep::Undo => {
                    let before = scope_dump(&rep, case.scope);
                    let outside = outside_dump(&rep, case.scope);
                    let stack_dels = stack_deletions(&mgr);
                    let prone = g3_prone(&rep, &stack_dels);
                    if prone {
                        tainted.set(true);
                    }
                    let ret = if case.async_api { block_on(mgr.undo()) } else { mgr.undo_blocking() };
                    let after = scope_dump(&rep, case.scope);
                    if ret {
                        // the undoing transaction resets the manager's merge window
                        last_change = 0;
                    }
                    // A captured group that changed nothing visible (e.g. it left only format marks)
                    // is either passed over or consumes the call without a visible effect: both are
                    // within the statement; everything else is decided by the dump sequence.
                    if ret && after == before {
                        let invisible_on_top = groups.len() > 1 && groups[groups.len() - 1] == groups[groups.len() - 2];
                        if !invisible_on_top && prone {
                            fail!("c12/isolated/map-entry-not-restored", "{}: undo returned true without a visible change in a state where a map entry to restore is blocked by an unaccounted tombstone (known finding G3)", when);
                        }
                        ensure!(invisible_on_top, "c12/isolated/undo-returned-true", "{}: undo() returned true, nothing visible changed and the last captured step was not an invisible one", when);
                        let g = groups.pop().unwrap();
                        redo.push(g);
                        st.hit("invisible_step_consumed_a_call");
                    } else if ret {
                        while groups.len() > 1 && groups[groups.len() - 1] == groups[groups.len() - 2] {
                            groups.pop();
                        }
                        ensure!(groups.len() > 1, "c12/isolated/undo-with-empty-stack", "{}: nothing was left to undo but the content changed: {}", when, first_diff(&after, &before).unwrap_or_default());
                        let cur = groups.pop().unwrap();
                        let prev = groups.last().unwrap().clone();
                        if after != prev && (prone || g3_explains(&rep, &after, &prev, &stack_dels)) {
                            fail!("c12/isolated/map-entry-not-restored", "{}: undo did not restore a map entry whose chain holds a tombstone that no stack item accounts for (known finding G3): {}", when, first_diff(&after, &prev).unwrap_or_default());
                        }
                        if after != prev && same_up_to_order(&after, &prev) {
                            // known finding G15: every element is back, one of them on the wrong side of a neighbour
                            fail!("c12/isolated/undo-reorders-elements", "{}: undo restored every element but not their order: {}", when, first_diff(&after, &prev).unwrap_or_default());
                        }
                        if after != prev {
                            fail!("c12/isolated/undo-wrong-content", "{}: undo did not restore the content before the last captured step: {}", when, first_diff(&after, &prev).unwrap_or_default());
                        }
                        redo.push(cur);
                        st.hit("undos_checked");
                        undone_deleting += 1;
                    } else {
                        if after != before {
                            fail!("c12/isolated/undo-returned-false", "{}: undo() returned false but the content changed: {}", when, first_diff(&after, &before).unwrap_or_default());
                        }
                        while groups.len() > 1 && groups[groups.len() - 1] == groups[groups.len() - 2] {
                            groups.pop();
                        }
                        if groups.len() > 1 && (prone || g3_explains(&rep, &after, &groups[groups.len() - 2], &stack_dels)) {
                            fail!("c12/isolated/map-entry-not-restored", "{}: undo refused to restore a map entry whose chain holds a tombstone that no stack item accounts for (known finding G3): {}", when, first_diff(&after, &groups[groups.len() - 2]).unwrap_or_default());
                        }
                        ensure!(groups.len() == 1, "c12/isolated/undo-refused", "{}: undo() returned false although a captured step that changed content is left", when);
                    }
                    ensure!(outside == outside_dump(&rep, case.scope), "c12/untracked-type-touched", "{}: undo changed a type outside of the scope", when);
                }
                IStep::Redo => {
                    let before = scope_dump(&rep, case.scope);
                    let outside = outside_dump(&rep, case.scope);
                    let ret = if case.async_api { block_on(mgr.redo()) } else { mgr.redo_blocking() };
                    let after = scope_dump(&rep, case.scope);
                    if ret && after == before {
                        ensure!(redo.last() == Some(&before), "c12/isolated/redo-returned-true", "{}: redo() returned true, nothing visible changed and the last undone step was not an invisible one", when);
                        groups.push(redo.pop().unwrap());
                    } else if ret {
                        while redo.last() == Some(&before) {
                            redo.pop();
                        }
                        match redo.pop() {
                            Some(e) => {
                                if after != e && same_up_to_order(&after, &e) {
                                    fail!("c12/isolated/undo-reorders-elements", "{}: redo restored every element but not their order: {}", when, first_diff(&after, &e).unwrap_or_default());
                                }
                                if after != e {
                                    fail!("c12/isolated/redo-wrong-content", "{}: redo did not restore the content after the undone step: {}", when, first_diff(&after, &e).unwrap_or_default());
                                }
                                groups.push(e);
                                st.hit("redos_checked");
                            }
                            None => fail!("c12/isolated/redo-with-empty-stack", "{}: nothing was left to redo but the content changed: {}", when, first_diff(&after, &before).unwrap_or_default()),
                        }
                    } else {
                        if after != before {
                            fail!("c12/isolated/redo-returned-false", "{}: redo() returned false but the content changed: {}", when, first_diff(&after, &before).unwrap_or_default());
                        }
                        while redo.last() == Some(&before) {
                            redo.pop();
                        }
                        ensure!(redo.is_empty(), "c12/isolated/redo-refused", "{}: redo() returned false although an undone step that changed content is left", when);
                    }
                    ensure!(outside == outside_dump(&rep, case.scope), "c12/untracked-type-touched", "{}: redo changed a type outside of the scope", when);
                }
                IStep::Reset => {
                    mgr.reset();
                    last_change = 0;
                }
                IStep::Gc => {
                    let before = rep.dump();
                    rep.doc.transact_mut().gc(None);
                    ensure!(before == rep.dump(), "c12/forced-gc-changed-content", "{}: forced GC changed content", when);
                }
            }
        }
        follow("the last step", st)?;
        if undone_deleting >= 2 {
            st.nt();
        }
        Ok(())
    }
}

// ------------------------------------------------------------------------------------------
// mixed regime
// ------------------------------------------------------------------------------------------

#[derive(Clone, Debug, Serialize, Deserialize)]
pub enum MStep {
    Tracked { ops: Vec<Op>, gap: bool },
    Untracked { ops: Vec<Op> },
    Remote { ops: Vec<Op> },
    /// exchange everything between the two replicas
    Sync,
    Undo,
    Redo,
}

#[derive(Clone, Debug, Serialize, Deserialize)]
pub struct MCase {
    pub cfgs: Vec<Cfg>,
    pub steps: Vec<MStep>,
    #[serde(default)]
    pub async_api: bool,
}

pub struct Mixed;

fn flat(v: &[Vec<String>; 3]) -> BTreeSet<String> {
    v.iter().flat_map(|s| s.iter().cloned()).collect()
}

fn order_ok(before: &[Vec<String>; 3], after: &[Vec<String>; 3], keep: &BTreeSet<String>) -> Option<String> {
    for k in 0..3 {
        let b: Vec<&String> = before[k].iter().filter(|e| keep.contains(*e)).collect();
        let a: Vec<&String> = after[k].iter().filter(|e| keep.contains(*e)).collect();
        if a != b {
            return Some(format!("{:?} became {:?}", b, a));
        }
    }
    None
}

impl Prop for Mixed {
    type Case = MCase;
    fn name(&self) -> &'static str {
        "mixed"
    }
    fn cases(&self, tier: Tier) -> u64 {
        tier.pick(300_000, 2_000_000)
    }
    fn strategy(&self, tier: Tier) -> BoxedStrategy<MCase> {
        let p = Profile::sequences_unique();
        let step = prop_oneof![
            6 => (txn_ops(&p, 2), prop::bool::weighted(0.6)).prop_map(|(ops, gap)| MStep::Tracked { ops, gap }),
            3 => txn_ops(&p, 2).prop_map(|ops| MStep::Untracked { ops }),
            3 => txn_ops(&p, 2).prop_map(|ops| MStep::Remote { ops }),
            3 => Just(MStep::Sync),
            4 => Just(MStep::Undo),
            2 => Just(MStep::Redo),
        ];
        (cfgs_strategy(2..=2, false), prop::collection::vec(step, 3..=tier.pick(22, 36)), prop::bool::weighted(0.3))
            .prop_map(|(cfgs, steps, async_api)| MCase { cfgs, steps, async_api })
            .boxed()
    }

    fn check(&self, case: &MCase, st: &mut CaseStats) -> Result<(), Fail> {
        let mut w = World::new(&case.cfgs);
        let clock = Arc::new(AtomicU64::new(10_000));
        let mut mgr = manager(&clock);
        mgr.include_origin("tracked");
        // scope: text, array, xml (all three sequences)
        expand(&mut mgr, &w.reps[0], 3);
        // elements by provenance
        let mut own: BTreeSet<String> = BTreeSet::new(); // inserted by the tracked origin
        let mut foreign: BTreeSet<String> = BTreeSet::new();
        let mut foreign_deleted: BTreeSet<String> = BTreeSet::new();
        // per capture group: inserted / deleted elements (with neighbours at deletion time)
        let mut groups: Vec<(BTreeSet<String>, BTreeSet<String>)> = Vec::new();
        let mut redo_groups: Vec<(BTreeSet<String>, BTreeSet<String>)> = Vec::new();
        let mut last_change: u64 = 0;
        let mut force_gap = false;
        let mut foreign_adjacent = false;
        let sync_all = |w: &mut World| -> Result<(), Fail> {
            for r in 0..2 {
                for i in w.missing(r) {
                    if let Err(e) = w.deliver(r, i, i % 2 == 0) {
                        fail!("c12/transport/apply-failed", "sync: {}", e);
                    }
                }
            }
            Ok(())
        };
        for (si, step) in case.steps.iter().enumerate() {
            let when = format!("step {} {:?}", si, step);
            match step {
                MStep::Tracked { ops, gap } => {
                    if *gap || force_gap {
                        clock.fetch_add(10 * TIMEOUT, Ordering::SeqCst);
                        force_gap = false;
                    }
                    let now = clock.load(Ordering::SeqCst);
                    let before = visible(&w.reps[0]);
                    let done = {
                        let rep = &w.reps[0];
                        let mut txn = rep.doc.transact_mut_with("tracked");
                        run_ops(&mut txn, &rep.roots, ops, &mut w.alloc, rep.cfg.kind())
                    };
                    w.register_local(0, vec![]);
                    let after = visible(&w.reps[0]);
                    let (b, a) = (flat(&before), flat(&after));
                    let ins: BTreeSet<String> = a.difference(&b).cloned().collect();
                    let del: BTreeSet<String> = b.difference(&a).cloned().collect();
                    let extend = last_change > 0 && now - last_change < TIMEOUT && !groups.is_empty();
                    if ins.is_empty() && del.is_empty() {
                        if done.is_empty() {
                            continue;
                        }
                        // invisible (insert-then-delete) or ineffective edit: capture is not observable;
                        // keep a superset in the model and bring both sides to a definite state
                        mgr.clear_redo();
                        redo_groups.clear();
                        if !extend {
                            groups.push((BTreeSet::new(), BTreeSet::new()));
                        }
                        last_change = now;
                        force_gap = true;
                        continue;
                    }
                    own.extend(ins.iter().cloned());
                    redo_groups.clear();
                    if extend {
                        let g = groups.last_mut().unwrap();
                        g.0.extend(ins);
                        g.1.extend(del);
                    } else {
                        groups.push((ins, del));
                    }
                    last_change = now;
                }
                MStep::Untracked { ops } => {
                    let before = flat(&visible(&w.reps[0]));
                    {
                        let rep = &w.reps[0];
                        let mut txn = rep.doc.transact_mut_with("someone-else");
                        run_ops(&mut txn, &rep.roots, ops, &mut w.alloc, rep.cfg.kind());
                    }
                    w.register_local(0, vec![]);
                    let after = flat(&visible(&w.reps[0]));
                    foreign.extend(after.difference(&before).cloned());
                    foreign_deleted.extend(before.difference(&after).cloned());
                }
                MStep::Remote { ops } => {
                    let before = flat(&visible(&w.reps[1]));
                    w.local(1, ops);
                    let after = flat(&visible(&w.reps[1]));
                    foreign.extend(after.difference(&before).cloned());
                    foreign_deleted.extend(before.difference(&after).cloned());
                }
                MStep::Sync => sync_all(&mut w)?,
                MStep::Undo | MStep::Redo => {
                    let undo = matches!(step, MStep::Undo);
                    let before = visible(&w.reps[0]);
                    let ret = match (undo, case.async_api) {
                        (true, false) => mgr.undo_blocking(),
                        (true, true) => block_on(mgr.undo()),
                        (false, false) => mgr.redo_blocking(),
                        (false, true) => block_on(mgr.redo()),
                    };
                    w.register_local(0, vec![]);
                    let after = visible(&w.reps[0]);
                    if undo && ret {
                        last_change = 0;
                    }
                    let (bset, aset) = (flat(&before), flat(&after));
                    // nothing appears twice
                    for k in 0..3 {
                        let mut seen = BTreeSet::new();
                        for e in after[k].iter() {
                            ensure!(seen.insert(e), "c12/mixed/duplicate-element", "{}: element {} is visible twice after {}: {:?}", when, e, if undo { "undo" } else { "redo" }, after[k]);
                        }
                    }
                    // foreign elements keep visibility and relative order
                    let foreign_visible: BTreeSet<String> = bset.intersection(&foreign).cloned().collect();
                    // (a foreign element may only disappear when the redone step is the tracked origin's
                    // own deletion of it: checked against the group below) — those that stay keep their order
                    let foreign_staying: BTreeSet<String> = foreign_visible.intersection(&aset).cloned().collect();
                    if let Some(msg) = order_ok(&before, &after, &foreign_staying) {
                        fail!("c12/mixed/foreign-order-changed", "{}: the relative order of elements of other origins changed: {}", when, msg);
                    }
                    // (what may appear / disappear is checked against the undone / redone group below)
                    let appeared: BTreeSet<String> = aset.difference(&bset).cloned().collect();
                    let disappeared: BTreeSet<String> = bset.difference(&aset).cloned().collect();
                    if !foreign_visible.is_empty() {
                        foreign_adjacent = true;
                    }
                    if ret && bset == aset {
                        // an invisible group consumed the call
                        if undo {
                            if let Some(g) = groups.pop() {
                                redo_groups.push(g);
                            }
                        } else if let Some(g) = redo_groups.pop() {
                            groups.push(g);
                        }
                    } else if ret {
                        // find the group that explains the observation; groups above it were passed
                        // over by the manager and must have had nothing visible to take away
                        let (stack, other) = if undo { (&mut groups, &mut redo_groups) } else { (&mut redo_groups, &mut groups) };
                        let mut matched = false;
                        while let Some((ins, del)) = stack.pop() {
                            let (to_remove, to_restore) = if undo { (&ins, &del) } else { (&del, &ins) };
                            let would_remove: BTreeSet<String> = to_remove.intersection(&bset).cloned().collect();
                            let explains = appeared.is_subset(to_restore) && disappeared.is_subset(to_remove);
                            if explains {
                                for e in would_remove.iter() {
                                    ensure!(
                                        !aset.contains(e),
                                        "c12/mixed/own-contribution-survived",
                                        "{}: element {} {} by the {} step is still visible",
                                        when,
                                        e,
                                        if undo { "inserted" } else { "deleted" },
                                        if undo { "undone" } else { "redone" }
                                    );
                                }
                                if undo {
                                    for e in del.iter() {
                                        if !ins.contains(e) && !foreign_deleted.contains(e) && !bset.contains(e) {
                                            ensure!(aset.contains(e), "c12/mixed/own-deletion-not-restored", "{}: element {} deleted by the undone step did not come back", when, e);
                                        }
                                    }
                                }
                                other.push((ins, del));
                                matched = true;
                                st.hit(if undo { "undos_checked" } else { "redos_checked" });
                                break;
                            }
                            ensure!(
                                would_remove.is_empty(),
                                "c12/mixed/step-skipped",
                                "{}: a captured step whose elements {:?} are visible was passed over",
                                when,
                                would_remove
                            );
                        }
                        ensure!(matched, "c12/mixed/unexplained-change", "{}: {} changed content (appeared {:?}, disappeared {:?}) that no captured step explains", when, if undo { "undo" } else { "redo" }, appeared, disappeared);
                    } else {
                        ensure!(bset == aset, "c12/mixed/returned-false-but-changed", "{}: the call returned false but the content changed", when);
                        if undo {
                            groups.clear();
                        } else {
                            redo_groups.clear();
                        }
                    }
                }
            }
        }
        // convergence
        sync_all(&mut w)?;
        let (d0, d1) = (w.reps[0].dump(), w.reps[1].dump());
        if d0 != d1 {
            fail!("c12/mixed/replicas-diverge", "after exchanging all updates (undo/redo included) the replicas differ: {}", first_diff(&d0, &d1).unwrap_or_default());
        }
        if foreign_adjacent {
            st.nt();
        }
        let _ = BTreeMap::<u8, u8>::new();
        Ok(())
    }
}

pub fn property() -> Property {
    Property {
        id: "C12",
        level: "exploration",
        rule: "isolated: one document with an UndoManager (harness clock; scope = generated subset of the four roots; every op kind incl. nested types, map overwrites, formatting; GC on/off) (undo/redo through the blocking or, in 30% of the cases, the async entry points) runs 2..22 (36) steps of tracked edits (clock either not advanced -> same capture group, or advanced 10x the timeout -> new group), undo, redo, reset, forced GC; model = sequence of scope dumps at group boundaries: undo must yield the previous distinct dump (passing over groups that changed nothing), redo the next one, the return value must tell whether content changed, types outside the scope never change; after every step a follower fed with the emitted update events (v1/v2 alternating, gc off) and a peer that pulls by state vector (gc on) show exactly what the document shows (undo/redo are ordinary replicated operations).  mixed: two replicas over uniquely tagged sequence elements with tracked, untracked-origin and remote edits, syncs, undo, redo: after undo no element inserted by the undone group is visible and its deletions are back (unless another origin deleted them too), elements of other origins keep visibility and relative order and are never resurrected, nothing is visible twice, and after a final exchange both replicas are equal.  Non-trivial = >=2 undos that restored content (isolated) / an undo or redo ran while elements of other origins were visible (mixed); distinct = distinct generated case".into(),
        assumptions: vec![
            "capture groups are decided by the harness clock: consecutive tracked edits without clock advance share a group, an advance of 10x the timeout, an undo/redo or reset() starts a new one".into(),
            "in the mixed part elements are unique, so a redone element is recognised by content".into(),
            "known finding G3 drops a blocked stack item silently: once its precondition has been seen before an undo call of a case, later disagreements between the model and undo/redo are attributed to G3 (counted); followers, untracked types, forced GC and memory safety stay in force".into(),
            "known finding G15: after == expected as multisets of elements at every level but not in order carries its own signature".into(),
        ],
        parts: vec![Box::new(Part(Isolated)), Box::new(Part(Mixed))],
    }
}
