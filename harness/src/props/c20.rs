//! C20 — quotations and links always show the current content of their source.

use crate::engine::*;
use crate::ops::*;
use crate::props::c04::visible;
use crate::world::*;
use crate::{ensure, fail};
use proptest::prelude::*;
use serde::{Deserialize, Serialize};
use std::collections::BTreeSet;
use std::ops::Bound;
use std::sync::atomic::{AtomicU64, Ordering};
use std::sync::Arc;
use yrs::branch::{Branch, BranchPtr};
use yrs::verif_hooks::{branch_items, linked_items, ItemInfo};
use yrs::{Any, Array, ArrayRef, GetString, Map, MapRef, Observable, OffsetKind, Out, Quotable, ReadTxn, TextRef, Transact, WeakRef, ID};

#[derive(Clone, Debug, Serialize, Deserialize)]
pub struct QSpec {
    pub at: u16,
    pub r: u8,
    /// 0 text, 1 array, 2 link to a map entry
    pub kind: u8,
    pub a: u16,
    pub b: u16,
    /// 0 inclusive, 1 exclusive, 2 unbounded
    pub sk: u8,
    pub ek: u8,
    /// remove the quotation again after this step (fraction), if any
    pub remove_at: Option<u16>,
}

#[derive(Clone, Debug, Serialize, Deserialize)]
pub struct Case {
    pub history: History,
    pub quotes: Vec<QSpec>,
    /// extra steps: writes / removals of the linked map key on generated replicas
    pub map_ops: Vec<(u16, u8, bool)>,
    /// extra steps: edits of the XML text (at, replica, position, what: 0..=2 insert 1..=3 unique
    /// characters, 3..=4 remove 1..=2 characters)
    #[serde(default)]
    pub xml_ops: Vec<(u16, u8, u16, u8)>,
}

pub struct Quotes;

#[derive(Clone, Debug)]
enum Edge {
    /// boundary element (first id for a start boundary, last id for an end boundary) and whether it is included
    Elem(ID, bool),
    Open,
}

struct Live {
    key: String,
    kind: u8,
    start: Edge,
    end: Edge,
    owner: usize,
    fired: Arc<AtomicU64>,
    _sub: Option<yrs::Subscription>,
    removed: bool,
    /// elements of the range (first unit ids) for which the link bookkeeping of yrs is able to
    /// know that they belong to the quotation (see `Carriers`)
    carriers: BTreeSet<ID>,
    /// id of the item holding the quotation on its owner
    link_id: Option<ID>,
}

/// One element of a source sequence, in item order (tombstones included).
#[derive(Clone, Debug)]
struct FlatU {
    first: ID,
    last: ID,
    /// c04 key of the element; empty for deleted / collected ones
    key: String,
    visible: bool,
}

/// flatten the item order of a source into elements; array values are taken from the visible sequence
fn flatten(items: &[ItemInfo], array_keys: Option<&[String]>) -> Vec<FlatU> {
    let mut flat = Vec::new();
    let mut cursor = 0usize;
    for it in items.iter() {
        if !it.countable && !it.deleted {
            continue;
        }
        match &it.text {
            Some(s) if array_keys.is_none() => {
                let mut units = 0u32;
                for c in s.chars() {
                    let first = ID::new(it.id.client, it.id.clock + units);
                    units += c.len_utf16() as u32;
                    let last = ID::new(it.id.client, it.id.clock + units - 1);
                    flat.push(FlatU { first, last, key: format!("t:{}", c), visible: !it.deleted });
                }
            }
            _ => {
                for k in 0..it.len {
                    let id = ID::new(it.id.client, it.id.clock + k);
                    let visible = !it.deleted && it.countable;
                    let key = match (visible, array_keys) {
                        (true, Some(all)) => {
                            cursor += 1;
                            all.get(cursor - 1).cloned().unwrap_or_default()
                        }
                        _ => String::new(),
                    };
                    flat.push(FlatU { first: id, last: id, key, visible });
                }
            }
        }
    }
    flat
}

fn holds(u: &FlatU, id: &ID) -> bool {
    u.first.client == id.client && id.clock >= u.first.clock && id.clock <= u.last.clock
}

/// half-open index range of the elements between the boundaries
fn range_of(flat: &[FlatU], start: &Edge, end: &Edge) -> Option<(usize, usize)> {
    let from = match start {
        Edge::Open => 0,
        Edge::Elem(id, incl) => flat.iter().position(|u| holds(u, id))? + if *incl { 0 } else { 1 },
    };
    let to = match end {
        Edge::Open => flat.len(),
        Edge::Elem(id, incl) => flat.iter().position(|u| holds(u, id))? + if *incl { 1 } else { 0 },
    };
    Some((from, to.max(from)))
}

/// the XML text every case starts with (first child of the root fragment)
fn xml_text(r: &Replica) -> Option<yrs::XmlTextRef> {
    use yrs::XmlFragment;
    let txn = r.doc.transact();
    match r.roots.xml.get(&txn, 0) {
        Some(yrs::XmlOut::Text(t)) => Some(t),
        _ => None,
    }
}

fn xml_text_in<T: ReadTxn>(r: &Replica, txn: &T) -> Option<yrs::XmlTextRef> {
    use yrs::XmlFragment;
    match r.roots.xml.get(txn, 0) {
        Some(yrs::XmlOut::Text(t)) => Some(t),
        _ => None,
    }
}

/// kind 0 = root text, 1 = root array, 3 = the XML text
fn source_branch(r: &Replica, kind: u8) -> BranchPtr {
    match kind {
        0 => BranchPtr::from(AsRef::<Branch>::as_ref(&r.roots.text)),
        3 => match xml_text(r) {
            Some(t) => BranchPtr::from(AsRef::<Branch>::as_ref(&t)),
            // (every replica receives the XML text before anything else happens)
            None => BranchPtr::from(AsRef::<Branch>::as_ref(&r.roots.xml)),
        },
        _ => BranchPtr::from(AsRef::<Branch>::as_ref(&r.roots.arr)),
    }
}

fn source_flat(rep: &Replica, kind: u8) -> Vec<FlatU> {
    let items = branch_items(&source_branch(rep, kind));
    if kind == 1 {
        let keys = visible(rep)[1].clone();
        flatten(&items, Some(&keys))
    } else {
        flatten(&items, None)
    }
}

fn check_quotes(w: &World, r: usize, live: &[Live], when: &str, st: &mut CaseStats) -> Result<(), Fail> {
    let rep = &w.reps[r];
    let txn = rep.doc.transact();
    for (k, l) in live.iter().enumerate() {
        let entry = rep.roots.map.get(&txn, &l.key);
        let Some(Out::YWeakLink(weak)) = entry else {
            continue;
        };
        match l.kind {
            0 | 1 | 3 => {
                let flat = source_flat(rep, l.kind);
                let Some((f, t)) = range_of(&flat, &l.start, &l.end) else {
                    st.hit("boundary_not_in_item_list");
                    continue;
                };
                let want: Vec<String> = flat[f..t].iter().filter(|u| u.visible).map(|u| u.key.clone()).collect();
                let got: Vec<String> = if l.kind == 0 {
                    let t: WeakRef<TextRef> = WeakRef::from(weak.clone());
                    t.get_string(&txn).chars().map(|c| format!("t:{}", c)).collect()
                } else if l.kind == 3 {
                    // (no formatting in these histories: the XML string of the range is its plain text)
                    let t: WeakRef<yrs::XmlTextRef> = WeakRef::from(weak.clone());
                    t.get_string(&txn).chars().map(|c| format!("t:{}", c)).collect()
                } else {
                    let a: WeakRef<ArrayRef> = WeakRef::from(weak.clone());
                    a.unquote(&txn)
                        .map(|o| match o {
                            Out::Any(Any::Number(n)) => format!("a:{}", n),
                            other => format!("a:?{}", other),
                        })
                        .collect()
                };
                if got != want {
                    let boundary_deleted = |e: &Edge| match e {
                        Edge::Elem(id, _) => flat.iter().any(|u| holds(u, id) && !u.visible),
                        Edge::Open => false,
                    };
                    let class = if boundary_deleted(&l.start) || boundary_deleted(&l.end) { "deleted-boundary" } else { "live-boundaries" };
                    fail!(
                        format!("c20/quotation-content/{}/{}", ["text", "array", "link", "xml-text"][l.kind as usize % 4], class),
                        "{}: on replica {} quotation {} ({:?} .. {:?}) dereferences to {:?}, but the elements currently visible between its boundaries are {:?}",
                        when,
                        r,
                        k,
                        l.start,
                        l.end,
                        got,
                        want
                    );
                }
                st.hit("quotation_dereferences_checked");
                if !want.is_empty() {
                    st.hit("nonempty_quotation_dereferences_checked");
                }
            }
            _ => {
                // link to map entry "linked": current value or nothing
                let m: WeakRef<MapRef> = WeakRef::from(weak.clone());
                let got = m.try_deref_value(&txn).map(|o| format!("{}", o));
                let want = rep.roots.map.get(&txn, "linked").map(|o| format!("{}", o));
                // the link belongs to the entry that existed when it was made; if that entry's key is
                // later re-created by a write that had not seen the linked item, both answers can
                // differ legitimately only while the replica has not integrated everything
                if rep.gap_free() {
                    ensure!(got == want, "c20/map-link", "{}: on replica {} the link dereferences to {:?} but the entry currently holds {:?}", when, r, got, want);
                    st.hit("link_dereferences_checked");
                }
            }
        }
    }
    Ok(())
}

/// What the owner's observer has to see (sequence quotations).
///
/// yrs does not keep the range of a quotation anywhere but in its two boundaries; whether a newly
/// integrated item belongs to a quotation is inferred from the `linked_by` entries of its two
/// immediate neighbours (join_linked_range), and a deleted item loses its entry.  Elements that
/// have an entry are "carriers".  The model below tracks which elements can be carriers under that
/// mechanism when it works as designed:
///   * all elements visible in the range when the quotation is integrated;
///   * a run of newly inserted elements whose outer neighbours are  carrier | carrier,
///     carrier | anything (exclusive end), or the excluded start element | carrier;
///   * until they are deleted.
/// The observer MUST fire when a carrier disappears or a run is joined, and every model carrier
/// must really have its entry (hook linked_items).  A change of the dereferenced content that only
/// involves non-carriers (element at a collection edge, next to a tombstone, next to an element
/// that was itself missed) is the recorded finding G8.
struct StepJudgement {
    must_notify: bool,
    lost: Vec<ID>,
    joined: Vec<ID>,
}

fn judge_step(l: &mut Live, flat: &[FlatU], real_carriers: &[(ID, u32, Vec<ID>)]) -> StepJudgement {
    let mut j = StepJudgement { must_notify: false, lost: vec![], joined: vec![] };
    let Some((f, t)) = range_of(flat, &l.start, &l.end) else {
        return j;
    };
    let _ = real_carriers;
    // carriers that disappeared
    let vis_in_range: BTreeSet<ID> = flat[f..t].iter().filter(|u| u.visible).map(|u| u.first).collect();
    let gone: Vec<ID> = l.carriers.iter().filter(|c| !vis_in_range.contains(c)).cloned().collect();
    for g in gone {
        l.carriers.remove(&g);
        j.lost.push(g);
        j.must_notify = true;
    }
    // runs of new elements (visible, in range, not carriers), judged by their outer neighbours
    let mut i = f;
    while i < t {
        if !(flat[i].visible && !l.carriers.contains(&flat[i].first)) {
            i += 1;
            continue;
        }
        let run_start = i;
        while i < t && flat[i].visible && !l.carriers.contains(&flat[i].first) {
            i += 1;
        }
        let run_end = i; // exclusive
        let left = if run_start > 0 { Some(&flat[run_start - 1]) } else { None };
        let right = flat.get(run_end);
        let is_carrier = |u: Option<&FlatU>| u.map(|u| u.visible && l.carriers.contains(&u.first)).unwrap_or(false);
        let left_is_excluded_start = match (&l.start, left) {
            (Edge::Elem(id, false), Some(u)) => holds(u, id),
            _ => false,
        };
        let end_exclusive = matches!(l.end, Edge::Elem(_, false));
        let joins = match (left, right) {
            (Some(_), Some(_)) => {
                (is_carrier(left) && is_carrier(right)) || (is_carrier(left) && end_exclusive) || (left_is_excluded_start && is_carrier(right))
            }
            _ => false,
        };
        if joins {
            for u in flat[run_start..run_end].iter() {
                j.joined.push(u.first);
            }
            j.must_notify = true;
        }
    }
    for id in j.joined.iter() {
        l.carriers.insert(*id);
    }
    j
}

struct Snap {
    views: Vec<Option<String>>,
    /// per replica: nothing stashed, no gaps
    gap_free: Vec<bool>,
}

/// reset the counters and remember what the owners' quotations show
fn snapshot(w: &World, live: &[Live]) -> Snap {
    let views = live
        .iter()
        .map(|l| {
            l.fired.store(0, Ordering::SeqCst);
            quote_view(&w.reps[l.owner], l)
        })
        .collect();
    Snap { views, gap_free: w.reps.iter().map(|r| r.gap_free()).collect() }
}

/// id of the item that holds the quotation stored under `key` of the root map
fn link_item_id(rep: &Replica, key: &str) -> Option<ID> {
    let chains = yrs::verif_hooks::branch_map_items(AsRef::<Branch>::as_ref(&rep.roots.map));
    chains.iter().find(|(k, _)| &**k == key).and_then(|(_, items)| items.last().map(|i| i.id))
}

/// judge the observers of the quotations owned by `owner` after ONE transaction on it
fn observe(w: &World, live: &mut Vec<Live>, owner: usize, snap: &Snap, when: &str, st: &mut CaseStats, deferred: &mut Option<Fail>) -> Result<(), Fail> {
    let before = &snap.views;
    // observer: content inside the range changed on the owner => it was notified
    for k in 0..live.len() {
        if !(live[k].owner == owner && !live[k].removed && live[k]._sub.is_some()) {
            continue;
        }
        let touched = live[k].owner;
        let real_carriers = {
            let txn = w.reps[touched].doc.transact();
            linked_items(txn.store()).0
        };
        let after = quote_view(&w.reps[touched], &live[k]);
        let changed = match (&before[k], &after) {
            (Some(b), Some(a)) => a != b,
            _ => false,
        };
        let fired = live[k].fired.load(Ordering::SeqCst) > 0;
        let link_id = live[k].link_id;
        let registered_on = |c: &ID| real_carriers.iter().any(|(id, len, links)| id.client == c.client && c.clock >= id.clock && c.clock < id.clock + len && link_id.map(|l| links.contains(&l)).unwrap_or(true));
        if live[k].kind == 2 {
            // `carriers` non-empty = the bookkeeping is able to know the entry behind the link.
            // Known finding G10: deleting the linked item drops its linked_by registration
            // (TransactionMut::delete), a later item of the key then has nothing to inherit.  That
            // happens when the entry is removed, and when a stashed delete set is applied before the
            // stashed block that overwrites the entry (retry of pending data).
            let registered = !live[k].carriers.is_empty();
            let really = link_id.map(|l| real_carriers.iter().any(|(_, _, links)| links.contains(&l))).unwrap_or(false);
            let mut lost_in_retry = false;
            if registered && !really {
                if after.as_deref() == Some("") {
                    st.hit("map_link_entry_removed");
                } else if !snap.gap_free[touched] || !w.reps[touched].gap_free() {
                    lost_in_retry = true;
                    st.hit("map_link_registration_lost_in_pending_retry");
                } else {
                    fail!(
                        "c20/link-index/map-link-lost",
                        "{}: link {} points at a live entry that was never removed, but the store's linked_by index does not know the link any more (entries {:?})",
                        when,
                        k,
                        real_carriers
                    );
                }
                live[k].carriers.clear();
            }
            if changed {
                if !(fired || lost_in_retry) {
                    let f = Fail {
                        sig: if !registered { "c20/observer-not-notified/map-link-after-removal" } else { "c20/observer-not-notified/map-link" }.to_string(),
                        msg: format!("{}: the value behind link {} changed from {:?} to {:?} on its owner but its observer did not fire", when, k, before[k], after),
                    };
                    if registered {
                        return Err(f);
                    }
                    // recorded finding: keep checking the rest of the history, report at the end
                    deferred.get_or_insert(f);
                }
                st.hit("observer_notifications_checked");
            }
            continue;
        }
        let flat = source_flat(&w.reps[touched], live[k].kind);
        let j = judge_step(&mut live[k], &flat, &real_carriers);
        if j.must_notify {
            ensure!(
                fired,
                "c20/observer-not-notified",
                "{}: quotation {} ({:?} .. {:?}) lost the elements {:?} and gained {:?} between linked neighbours (content {:?} -> {:?}) on its owner, but its observer did not fire",
                when,
                k,
                live[k].start,
                live[k].end,
                j.lost,
                j.joined,
                before[k],
                after
            );
            st.hit("observer_notifications_checked");
        } else if changed && !fired {
            // known finding G8: the change only involves elements the neighbour inference
            // of join_linked_range cannot attribute to the quotation
            deferred.get_or_insert(Fail {
                sig: "c20/observer-not-notified/neighbour-inference".to_string(),
                msg: format!(
                "{}: the content of quotation {} ({:?} .. {:?}) changed from {:?} to {:?} on its owner but its observer did not fire; the elements involved sit at a collection edge, next to a tombstone or next to an element that was missed before",
                when,
                k,
                live[k].start,
                live[k].end,
                before[k],
                after
            ),
            });
        }
        // every element the bookkeeping must know really has its linked_by entry
        for c in live[k].carriers.iter() {
            let has = registered_on(c);
            ensure!(
                has,
                "c20/link-index/carrier-lost",
                "{}: element {:?} belongs to quotation {} ({:?} .. {:?}) and was linked, but the store's linked_by index has no entry for its item any more (entries: {:?})",
                when,
                c,
                k,
                live[k].start,
                live[k].end,
                real_carriers
            );
        }
        if !live[k].carriers.is_empty() {
            st.hit("link_index_checked");
        }
    }
    Ok(())
}

impl Prop for Quotes {
    type Case = Case;
    fn name(&self) -> &'static str {
        "quotes"
    }
    fn cases(&self, tier: Tier) -> u64 {
        tier.pick(1_500_000, 15_000_000)
    }
    fn strategy(&self, tier: Tier) -> BoxedStrategy<Case> {
        let mut shape = HistoryShape::default_for(tier);
        shape.steps = 4..=tier.pick(22, 36);
        shape.ops_per_txn = 2;
        let mut p = Profile::sequences_unique();
        p.xml = 0;
        let q = (any::<u16>(), any::<u8>(), 0u8..4, any::<u16>(), any::<u16>(), 0u8..3, 0u8..3, prop::option::weighted(0.2, any::<u16>()))
            .prop_map(|(at, r, kind, a, b, sk, ek, remove_at)| QSpec { at, r, kind, a, b, sk, ek, remove_at });
        (
            history_strategy(p, shape, false),
            prop::collection::vec(q, 1..4),
            prop::collection::vec((any::<u16>(), any::<u8>(), any::<bool>()), 0..5),
            prop::collection::vec((any::<u16>(), any::<u8>(), any::<u16>(), 0u8..5), 0..8),
        )
            .prop_map(|(history, quotes, map_ops, xml_ops)| Case { history, quotes, map_ops, xml_ops })
            .boxed()
    }

    fn check(&self, case: &Case, st: &mut CaseStats) -> Result<(), Fail> {
        let mut w = World::new(&case.history.cfgs);
        let n = w.reps.len();
        let nsteps = case.history.steps.len();
        let mut live: Vec<Live> = Vec::new();
        let mut deferred: Option<Fail> = None;
        // an XML text known to everybody (third kind of quotable source)
        {
            use yrs::{Text, XmlFragment};
            let init: String = (0..4).map(|_| w.alloc.ch(0)).collect();
            {
                let rep = &w.reps[0];
                let mut txn = rep.doc.transact_mut();
                let t = rep.roots.xml.insert(&mut txn, 0, yrs::XmlTextPrelim::new(""));
                t.insert(&mut txn, 0, &init);
            }
            if let Some(u) = w.register_local(0, vec![]) {
                for r in 1..n {
                    if let Err(e) = w.deliver(r, u, false) {
                        fail!("c20/transport/apply-failed", "setup: {}", e);
                    }
                }
            }
        }
        for (i, s) in case.history.steps.iter().enumerate() {
            let when = format!("after step {} {:?}", i, s);
            let before = snapshot(&w, &live);
            if let Err(e) = w.step(s) {
                fail!("c20/transport/apply-failed", "{}: {}", when, e);
            }
            let touched = match s {
                Step::Local { r, .. } => *r as usize % n,
                Step::Deliver { to, .. } | Step::Dup { to, .. } | Step::Merge { to, .. } | Step::Sync { to, .. } => *to as usize % n,
            };
            if std::env::var("VERIF_DEBUG").is_ok() {
                eprintln!("{}", when);
                for kind in 0..2u8 {
                    let items = branch_items(&source_branch(&w.reps[touched], kind));
                    let line: Vec<String> = items.iter().map(|i| format!("{}#{}+{}{}{}", i.id.client.get(), i.id.clock, i.len, if i.deleted { "d" } else { "" }, if i.linked { "L" } else { "" })).collect();
                    eprintln!("    rep {} source {}: {:?}", touched, kind, line);
                }
                {
                    let txn = w.reps[touched].doc.transact();
                    eprintln!("    rep {} linked_by {:?}", touched, linked_items(txn.store()));
                    let chain = yrs::verif_hooks::branch_map_items(AsRef::<Branch>::as_ref(&w.reps[touched].roots.map));
                    for (k, items) in chain.iter().filter(|(k, _)| &**k == "linked") {
                        let line: Vec<String> = items.iter().map(|i| format!("{}#{}+{}{}{}", i.id.client.get(), i.id.clock, i.len, if i.deleted { "d" } else { "" }, if i.linked { "L" } else { "" })).collect();
                        eprintln!("    rep {} map key {}: {:?}", touched, k, line);
                    }
                }
                for (k, l) in live.iter().enumerate() {
                    eprintln!("    quotation {} ({:?}..{:?}) owner {} view {:?} fired {}", k, l.start, l.end, l.owner, quote_view(&w.reps[l.owner], l), l.fired.load(Ordering::SeqCst));
                }
            }
            observe(&w, &mut live, touched, &before, &when, st, &mut deferred)?;
            // writes / removals of the linked map entry
            for (at, r, remove) in case.map_ops.iter() {
                if pick(*at, nsteps) == i {
                    let r = *r as usize % n;
                    let before = snapshot(&w, &live);
                    {
                        let rep = &w.reps[r];
                        let mut txn = rep.doc.transact_mut();
                        if *remove {
                            rep.roots.map.remove(&mut txn, "linked");
                        } else {
                            let v = w.alloc.int();
                            rep.roots.map.insert(&mut txn, "linked", v as f64);
                        }
                    }
                    w.register_local(r, vec![]);
                    observe(&w, &mut live, r, &before, &format!("{} + write to the linked entry", when), st, &mut deferred)?;
                    check_quotes(&w, r, &live, &format!("{} + write to the linked entry", when), st)?;
                }
            }
            // edits of the XML text
            for (at, r, pos, what) in case.xml_ops.iter() {
                if pick(*at, nsteps) != i {
                    continue;
                }
                use yrs::Text;
                let r = *r as usize % n;
                let Some(t) = xml_text(&w.reps[r]) else { continue };
                let before = snapshot(&w, &live);
                {
                    let rep = &w.reps[r];
                    let kind = rep.cfg.kind();
                    let mut txn = rep.doc.transact_mut();
                    let s = t.get_string(&txn);
                    let chars: Vec<char> = s.chars().collect();
                    let width = |cs: &[char]| -> u32 {
                        cs.iter()
                            .map(|c| match kind {
                                OffsetKind::Bytes => c.len_utf8() as u32,
                                OffsetKind::Utf16 => c.len_utf16() as u32,
                            })
                            .sum()
                    };
                    if *what < 3 {
                        let k = pick(*pos, chars.len() + 1);
                        let ins: String = (0..=*what).map(|j| w.alloc.ch(*what + j)).collect();
                        t.insert(&mut txn, width(&chars[..k]), &ins);
                    } else if !chars.is_empty() {
                        let k = pick(*pos, chars.len());
                        let len = ((*what - 2) as usize).min(chars.len() - k);
                        t.remove_range(&mut txn, width(&chars[..k]), width(&chars[k..k + len]));
                    }
                }
                w.register_local(r, vec![]);
                observe(&w, &mut live, r, &before, &format!("{} + edit of the XML text", when), st, &mut deferred)?;
                check_quotes(&w, r, &live, &format!("{} + edit of the XML text", when), st)?;
            }
            // new quotations
            for (qi, q) in case.quotes.iter().enumerate() {
                if pick(q.at, nsteps) != i {
                    continue;
                }
                let r = q.r as usize % n;
                let key = format!("q{}", qi);
                let kind = q.kind % 4;
                let made: Option<(Edge, Edge)> = {
                    let rep = &w.reps[r];
                    let okind = rep.cfg.kind();
                    let mut txn = rep.doc.transact_mut();
                    if kind == 2 {
                        match rep.roots.map.link(&txn, "linked") {
                            Some(link) => {
                                rep.roots.map.insert(&mut txn, key.clone(), link);
                                Some((Edge::Open, Edge::Open))
                            }
                            None => None,
                        }
                    } else {
                        // element boundaries of the visible sequence
                        // (a write transaction is open on this replica: the XML text is looked up through it)
                        let src = if kind == 3 {
                            match xml_text_in(rep, &txn) {
                                Some(t) => BranchPtr::from(AsRef::<Branch>::as_ref(&t)),
                                None => BranchPtr::from(AsRef::<Branch>::as_ref(&rep.roots.xml)),
                            }
                        } else {
                            source_branch(rep, kind)
                        };
                        let items = branch_items(&src);
                        // (offset, first id, last id); `tail` is what an index that sticks to the right side
                        // of an element has to add: with UTF-16 offsets it names the last code unit of the
                        // element, byte offsets always name the first byte of a character
                        let mut elems: Vec<(u32, ID, ID)> = Vec::new();
                        let tail = |e: &(u32, ID, ID)| match okind {
                            OffsetKind::Utf16 => e.2.clock - e.1.clock,
                            OffsetKind::Bytes => 0,
                        };
                        let mut off = 0u32;
                        for it in items.iter().filter(|i| !i.deleted && i.countable) {
                            match &it.text {
                                Some(s) => {
                                    let mut units = 0u32;
                                    for c in s.chars() {
                                        let first = ID::new(it.id.client, it.id.clock + units);
                                        units += c.len_utf16() as u32;
                                        elems.push((off, first, ID::new(it.id.client, it.id.clock + units - 1)));
                                        off += match okind {
                                            OffsetKind::Bytes => c.len_utf8() as u32,
                                            OffsetKind::Utf16 => c.len_utf16() as u32,
                                        };
                                    }
                                }
                                None => {
                                    for j in 0..it.len {
                                        let id = ID::new(it.id.client, it.id.clock + j);
                                        elems.push((off, id, id));
                                        off += 1;
                                    }
                                }
                            }
                        }
                        if elems.is_empty() {
                            None
                        } else {
                            let ia = pick(q.a, elems.len());
                            let ib = ia + pick(q.b, elems.len() - ia);
                            let (sk, ek) = (q.sk % 3, q.ek % 3);
                            // keep the range non-empty and well-formed
                            let exclusive = (sk == 1) as usize + (ek == 1) as usize;
                            let ib = if sk != 2 && ek != 2 && ib < ia + exclusive { (ia + exclusive).min(elems.len() - 1) } else { ib };
                            if sk != 2 && ek != 2 && ib < ia + exclusive {
                                None
                            } else {
                                let start_b = match sk {
                                    0 => Bound::Included(elems[ia].0),
                                    1 => Bound::Excluded(elems[ia].0 + tail(&elems[ia])),
                                    _ => Bound::Unbounded,
                                };
                                let end_b = match ek {
                                    0 => Bound::Included(elems[ib].0 + tail(&elems[ib])),
                                    1 => Bound::Excluded(elems[ib].0),
                                    _ => Bound::Unbounded,
                                };
                                let start_e = match sk {
                                    0 => Edge::Elem(elems[ia].1, true),
                                    1 => Edge::Elem(elems[ia].2, false),
                                    _ => Edge::Open,
                                };
                                let end_e = match ek {
                                    0 => Edge::Elem(elems[ib].2, true),
                                    1 => Edge::Elem(elems[ib].1, false),
                                    _ => Edge::Open,
                                };
                                let res = if kind == 0 {
                                    rep.roots.text.quote(&txn, (start_b, end_b)).map(|p| {
                                        rep.roots.map.insert(&mut txn, key.clone(), p);
                                    })
                                } else if kind == 3 {
                                    match xml_text_in(rep, &txn) {
                                        Some(t) => t.quote(&txn, (start_b, end_b)).map(|p| {
                                            rep.roots.map.insert(&mut txn, key.clone(), p);
                                        }),
                                        None => Ok(()),
                                    }
                                } else {
                                    rep.roots.arr.quote(&txn, (start_b, end_b)).map(|p| {
                                        rep.roots.map.insert(&mut txn, key.clone(), p);
                                    })
                                };
                                match res {
                                    Ok(()) => Some((start_e, end_e)),
                                    Err(e) => fail!("c20/quote-refused", "{}: quote({:?}, {:?}) on a sequence of {} elements failed: {}", when, start_b, end_b, elems.len(), e),
                                }
                            }
                        }
                    }
                };
                if let Some((start, end)) = made {
                    w.register_local(r, vec![]);
                    let fired = Arc::new(AtomicU64::new(0));
                    let sub = {
                        let rep = &w.reps[r];
                        let txn = rep.doc.transact();
                        match rep.roots.map.get(&txn, &key) {
                            Some(Out::YWeakLink(weak)) => {
                                let f = fired.clone();
                                let typed: WeakRef<ArrayRef> = WeakRef::from(weak);
                                Some(typed.observe(move |_, _| {
                                    f.fetch_add(1, Ordering::SeqCst);
                                }))
                            }
                            _ => None,
                        }
                    };
                    let carriers: BTreeSet<ID> = if kind != 2 {
                        let flat = source_flat(&w.reps[r], kind);
                        match range_of(&flat, &start, &end) {
                            Some((f, t)) => flat[f..t].iter().filter(|u| u.visible).map(|u| u.first).collect(),
                            None => BTreeSet::new(),
                        }
                    } else {
                        // a link to a live entry: registered (marker element)
                        let mut reg = BTreeSet::new();
                        if quote_view_key(&w.reps[r], &key, kind).as_deref() != Some("") {
                            reg.insert(ID::new(yrs::block::ClientID::new(0), 0));
                        }
                        reg
                    };
                    live.push(Live { key, kind, start, end, owner: r, fired, _sub: sub, removed: false, carriers, link_id: link_item_id(&w.reps[r], &format!("q{}", qi)) });
                    st.hit(["text_quotations", "array_quotations", "map_links", "xml_text_quotations"][kind as usize]);
                    check_quotes(&w, r, &live, &format!("{} right after quoting", when), st)?;
                    // integrating the quotation registers it on everything in its range
                    {
                        let l = live.last().unwrap();
                        let txn = w.reps[r].doc.transact();
                        let real = linked_items(txn.store()).0;
                        for c in l.carriers.iter() {
                            let has = if kind == 2 {
                                l.link_id.map(|id| real.iter().any(|(_, _, links)| links.contains(&id))).unwrap_or(false)
                            } else {
                                real.iter().any(|(id, len, links)| id.client == c.client && c.clock >= id.clock && c.clock < id.clock + len && l.link_id.map(|x| links.contains(&x)).unwrap_or(true))
                            };
                            ensure!(
                                has,
                                "c20/link-index/not-materialized",
                                "{} right after quoting: element {:?} lies in the range of quotation {} ({:?} .. {:?}) but the store's linked_by index has not registered the quotation for it (entries: {:?})",
                                when,
                                c,
                                l.key,
                                l.start,
                                l.end,
                                real
                            );
                        }
                    }
                }
            }
            // removal of a quotation leaves the source untouched
            for (qi, q) in case.quotes.iter().enumerate() {
                if let Some(ra) = q.remove_at {
                    if pick(ra, nsteps) == i {
                        let key = format!("q{}", qi);
                        if let Some(l) = live.iter_mut().find(|l| l.key == key && !l.removed) {
                            let r = l.owner;
                            let before = visible(&w.reps[r]);
                            {
                                let rep = &w.reps[r];
                                let mut txn = rep.doc.transact_mut();
                                rep.roots.map.remove(&mut txn, &key);
                            }
                            w.register_local(r, vec![]);
                            ensure!(before == visible(&w.reps[r]), "c20/removal-touched-source", "{}: deleting quotation {} changed its source", when, key);
                            l.removed = true;
                            st.hit("quotations_removed");
                        }
                    }
                }
            }
            check_quotes(&w, touched, &live, &when, st)?;
            if !live.is_empty() {
                st.nt();
            }
        }
        // final flush, check everywhere
        for r in 0..n {
            for i in w.missing(r) {
                if let Err(e) = w.deliver(r, i, false) {
                    fail!("c20/transport/apply-failed", "final flush: {}", e);
                }
            }
            check_quotes(&w, r, &live, &format!("after the final flush on replica {}", r), st)?;
        }
        match deferred {
            Some(f) => Err(f),
            None => Ok(()),
        }
    }
}

fn quote_view(rep: &Replica, l: &Live) -> Option<String> {
    quote_view_key(rep, &l.key, l.kind)
}

fn quote_view_key(rep: &Replica, key: &str, kind: u8) -> Option<String> {
    let txn = rep.doc.transact();
    let Some(Out::YWeakLink(weak)) = rep.roots.map.get(&txn, key) else { return None };
    match kind {
        0 => {
            let t: WeakRef<TextRef> = WeakRef::from(weak);
            Some(t.get_string(&txn))
        }
        1 => {
            let a: WeakRef<ArrayRef> = WeakRef::from(weak);
            Some(a.unquote(&txn).map(|o| format!("{}", o)).collect::<Vec<_>>().join(","))
        }
        3 => {
            let t: WeakRef<yrs::XmlTextRef> = WeakRef::from(weak);
            Some(t.get_string(&txn))
        }
        _ => {
            let m: WeakRef<MapRef> = WeakRef::from(weak);
            Some(m.try_deref_value(&txn).map(|o| format!("{}", o)).unwrap_or_default())
        }
    }
}

pub fn property() -> Property {
    Property {
        id: "C20",
        level: "exploration",
        rule: "multi-replica histories over uniquely tagged elements in a root text (characters of every width, both offset kinds) and a root array; at generated points a generated replica quotes a generated range (inclusive / exclusive / unbounded start and end, single element) of the text or the array, or links the map entry 'linked', and stores the quotation in the root map; other steps edit inside, at and outside of the boundaries (incl. deleting boundary elements), write/remove the linked entry, and remove quotations; after every step on the touched replica and after a final flush on all replicas every replica that holds a quotation must dereference it (get_string / unquote / try_deref_value) to exactly the elements currently visible between its boundary elements, computed from the item order of the source (hook branch_items; exact also for deleted boundaries); the owner's observer must have fired whenever the dereferenced content changed; removing a quotation must not change the source.  Non-trivial = the case holds at least one quotation while the history continues; distinct = distinct generated case".into(),
        assumptions: vec![
            "the position of a deleted boundary is read from the item order (hook branch_items)".into(),
            "map links are compared at gap-free points".into(),
        ],
        parts: vec![Box::new(Part(Quotes))],
    }
}
