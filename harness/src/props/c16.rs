//! C16 — IdSet / IdMap are exact set algebra, results canonical.
//!
//! Oracle: bit-mask models.  IdSet over a universe of U clocks of one client is a `u64` mask;
//! IdMap is one mask per attribute.  Enumerated parts walk the complete small universe, the
//! random part uses 3 clients x 64 clocks.

use crate::engine::*;
use crate::{ensure, fail};
use proptest::prelude::*;
use serde::{Deserialize, Serialize};
use std::collections::BTreeMap;
use std::hash::{Hash, Hasher};
use std::sync::atomic::{AtomicU64, Ordering};
use std::sync::Mutex;
use yrs::block::BlockRange;
use yrs::updates::decoder::Decode;
use yrs::updates::encoder::Encode;
use yrs::verif_hooks::IdRange;
use yrs::{ClientID, ContentAttribute, Diff, IdMap, IdSet, ID};

const CLIENTS: [u64; 3] = [1, 7, (1u64 << 53) - 1];

fn cid(i: usize) -> ClientID {
    ClientID::new(CLIENTS[i])
}

// ------------------------------------------------------------------------------------------
// IdSet model helpers
// ------------------------------------------------------------------------------------------

fn range_mask(start: u32, end: u32) -> u64 {
    let mut m = 0u64;
    let mut i = start;
    while i < end {
        m |= 1u64 << i;
        i += 1;
    }
    m
}

/// runs of a mask as (start,end) pairs
fn mask_runs(mask: u64, universe: u32) -> Vec<(u32, u32)> {
    let mut out = Vec::new();
    let mut i = 0;
    while i < universe {
        if mask & (1u64 << i) != 0 {
            let s = i;
            while i < universe && mask & (1u64 << i) != 0 {
                i += 1;
            }
            out.push((s, i));
        } else {
            i += 1;
        }
    }
    out
}

/// Checks that `set` is canonical and equal to the model (client index → mask).
fn check_idset(set: &IdSet, model: &[u64], universe: u32, ctx: &str) -> Result<(), Fail> {
    let mut seen = vec![false; model.len()];
    let mut prev_client: Option<ClientID> = None;
    let mut n_clients = 0;
    for (client, ranges) in set.iter() {
        n_clients += 1;
        if let Some(p) = prev_client {
            ensure!(p < *client, "idset/canonical/client-order", "{}: clients not sorted", ctx);
        }
        prev_client = Some(*client);
        let Some(ci) = CLIENTS.iter().position(|c| *c == client.get()) else {
            fail!("idset/model/unknown-client", "{}: unexpected client {}", ctx, client);
        };
        seen[ci] = true;
        let rs: Vec<(u32, u32)> = ranges.iter().map(|r| (r.start, r.end)).collect();
        ensure!(
            !rs.is_empty(),
            "idset/canonical/empty-client-entry",
            "{}: client {} has an entry without ranges: {:?}",
            ctx,
            client,
            set
        );
        ensure!(
            ranges.len() == rs.len() && !ranges.is_empty(),
            "idset/canonical/len",
            "{}: IdRange len/is_empty untruthful",
            ctx
        );
        let mut prev_end: Option<u32> = None;
        for (s, e) in rs.iter() {
            ensure!(s < e, "idset/canonical/empty-range", "{}: empty range {}..{} in {:?}", ctx, s, e, set);
            if let Some(pe) = prev_end {
                ensure!(
                    pe < *s,
                    "idset/canonical/overlap-or-adjacent",
                    "{}: ranges not sorted/disjoint/coalesced: {:?}",
                    ctx,
                    set
                );
            }
            prev_end = Some(*e);
        }
        let expected = mask_runs(model[ci], universe);
        ensure!(
            rs == expected,
            "idset/model/content",
            "{}: client {} has {:?}, model says {:?}",
            ctx,
            client,
            rs,
            expected
        );
        if let Some(raw) = set.get(client) {
            ensure!(
                raw.clock_start() == expected.first().map(|r| r.0)
                    && raw.clock_end() == expected.last().map(|r| r.1),
                "idset/query/clock-bounds",
                "{}: clock_start/clock_end wrong",
                ctx
            );
        }
    }
    for (ci, m) in model.iter().enumerate() {
        if *m != 0 {
            ensure!(
                seen[ci],
                "idset/model/content",
                "{}: client {} missing, model says {:?}",
                ctx,
                CLIENTS[ci],
                mask_runs(*m, universe)
            );
        }
    }
    let model_empty = model.iter().all(|m| *m == 0);
    ensure!(
        set.is_empty() == model_empty,
        "idset/query/is_empty",
        "{}: is_empty()={} but model empty={} ({:?})",
        ctx,
        set.is_empty(),
        model_empty,
        set
    );
    ensure!(
        set.len() == n_clients && set.client_ids().count() == n_clients,
        "idset/query/len",
        "{}: len()={} but iter yields {} clients",
        ctx,
        set.len(),
        n_clients
    );
    // point queries
    for (ci, m) in model.iter().enumerate() {
        for clock in 0..=universe {
            let expect = clock < universe && (m >> clock) & 1 == 1;
            let got = set.contains(&ID::new(cid(ci), clock));
            ensure!(
                got == expect,
                "idset/query/contains",
                "{}: contains({}#{})={} model {}",
                ctx,
                CLIENTS[ci],
                clock,
                got,
                expect
            );
            if let Some(r) = set.get(&cid(ci)) {
                ensure!(
                    r.contains_clock(clock) == expect,
                    "idset/query/contains_clock",
                    "{}: contains_clock({}) wrong",
                    ctx,
                    clock
                );
            }
        }
    }
    Ok(())
}

fn build_from_model(model: &[u64], universe: u32, style: u8) -> IdSet {
    match style % 3 {
        0 => {
            let mut s = IdSet::new();
            for (ci, m) in model.iter().enumerate() {
                for (a, b) in mask_runs(*m, universe) {
                    s.insert(ID::new(cid(ci), a), b - a);
                }
            }
            s
        }
        1 => {
            let mut s = IdSet::new();
            for (ci, m) in model.iter().enumerate().rev() {
                for (a, b) in mask_runs(*m, universe).into_iter().rev() {
                    s.insert(ID::new(cid(ci), a), b - a);
                }
            }
            s
        }
        _ => {
            let mut s = IdSet::new();
            for (ci, m) in model.iter().enumerate() {
                // point by point, odd clocks first
                for clock in (0..universe).filter(|c| c % 2 == 1).chain((0..universe).filter(|c| c % 2 == 0)) {
                    if (m >> clock) & 1 == 1 {
                        s.insert(ID::new(cid(ci), clock), 1);
                    }
                }
            }
            s
        }
    }
}

fn hash_of<T: Hash>(t: &T) -> u64 {
    let mut h = std::collections::hash_map::DefaultHasher::new();
    t.hash(&mut h);
    h.finish()
}

/// equal sets compare, hash and encode equal; round trips
fn check_equal_sets(a: &IdSet, b: &IdSet, ctx: &str) -> Result<(), Fail> {
    ensure!(a == b, "idset/equality/eq", "{}: equal sets compare different: {:?} vs {:?}", ctx, a, b);
    ensure!(hash_of(a) == hash_of(b), "idset/equality/hash", "{}: equal sets hash different", ctx);
    ensure!(
        a.encode_v1() == b.encode_v1() && a.encode_v2() == b.encode_v2(),
        "idset/equality/encode",
        "{}: equal sets encode different",
        ctx
    );
    Ok(())
}

fn check_roundtrip(a: &IdSet, ctx: &str) -> Result<(), Fail> {
    let v1 = a.encode_v1();
    let d1 = IdSet::decode_v1(&v1);
    ensure!(d1.as_ref().ok() == Some(a), "idset/roundtrip/v1", "{}: v1 round trip {:?} -> {:?}", ctx, a, d1);
    let v2 = a.encode_v2();
    let d2 = IdSet::decode_v2(&v2);
    ensure!(d2.as_ref().ok() == Some(a), "idset/roundtrip/v2", "{}: v2 round trip {:?} -> {:?}", ctx, a, d2);
    let js = serde_json::to_string(a);
    if let Ok(js) = js {
        let back: Result<IdSet, _> = serde_json::from_str(&js);
        ensure!(back.as_ref().ok() == Some(a), "idset/roundtrip/serde", "{}: serde round trip failed", ctx);
    }
    Ok(())
}

fn subset_model(a: &[u64], b: &[u64]) -> bool {
    a.iter().zip(b.iter()).all(|(x, y)| x & !y == 0)
}

/// all binary operations of two sets against the model
fn check_binary(a: &IdSet, ma: &[u64], b: &IdSet, mb: &[u64], universe: u32, ctx: &str) -> Result<(), Fail> {
    let n = ma.len();
    let mm: Vec<u64> = (0..n).map(|i| ma[i] | mb[i]).collect();
    let md: Vec<u64> = (0..n).map(|i| ma[i] & !mb[i]).collect();
    let mi: Vec<u64> = (0..n).map(|i| ma[i] & mb[i]).collect();

    let r = a.merge(b);
    check_idset(&r, &mm, universe, &format!("{} merge", ctx))?;
    let mut r2 = a.clone();
    r2.merge_with(b.clone());
    check_equal_sets(&r, &r2, &format!("{} merge vs merge_with", ctx))?;
    let r3 = b.merge(a);
    check_equal_sets(&r, &r3, &format!("{} merge commutes", ctx))?;

    let r = a.diff(b);
    check_idset(&r, &md, universe, &format!("{} diff", ctx))?;
    let mut r2 = a.clone();
    r2.diff_with(b);
    check_equal_sets(&r, &r2, &format!("{} diff vs diff_with", ctx))?;

    let r = a.intersect(b);
    check_idset(&r, &mi, universe, &format!("{} intersect", ctx))?;
    let mut r2 = a.clone();
    r2.intersect_with(b);
    check_equal_sets(&r, &r2, &format!("{} intersect vs intersect_with", ctx))?;
    let r3 = b.intersect(a);
    check_equal_sets(&r, &r3, &format!("{} intersect commutes", ctx))?;

    // equality both directions
    let same = ma == mb;
    ensure!(
        (a == b) == same,
        "idset/equality/eq",
        "{}: a==b is {} but models equal is {}: {:?} {:?}",
        ctx,
        a == b,
        same,
        a,
        b
    );
    if same {
        check_equal_sets(a, b, ctx)?;
    }
    // per client subset test
    for ci in 0..n {
        let empty = IdSet::new();
        let _ = empty;
        match (a.get(&cid(ci)), b.get(&cid(ci))) {
            (Some(ra), Some(rb)) => {
                let expect = ma[ci] & !mb[ci] == 0;
                ensure!(
                    ra.subset_of(rb) == expect,
                    "idset/query/subset_of",
                    "{}: subset_of gives {} model {} for {:?} in {:?}",
                    ctx,
                    ra.subset_of(rb),
                    expect,
                    ra,
                    rb
                );
            }
            _ => {}
        }
    }
    let _ = subset_model;
    // remove_range of every run of b from a == diff
    let mut r4 = a.clone();
    for ci in 0..n {
        for (s, e) in mask_runs(mb[ci], universe) {
            r4.remove_range(&BlockRange::new(ID::new(cid(ci), s), e - s));
        }
    }
    check_idset(&r4, &md, universe, &format!("{} remove_range runs", ctx))?;
    // insert_range of b's per-client ranges into a == merge
    let mut r5 = a.clone();
    for ci in 0..n {
        let runs = mask_runs(mb[ci], universe);
        if !runs.is_empty() {
            r5.insert_range(cid(ci), IdRange::from_ranges(runs.into_iter().map(|(s, e)| s..e)));
        }
    }
    check_idset(&r5, &mm, universe, &format!("{} insert_range", ctx))?;
    Ok(())
}

// ------------------------------------------------------------------------------------------
// enumerated part: IdSet
// ------------------------------------------------------------------------------------------

const U8: u32 = 8;

fn all_ranges(universe: u32) -> Vec<(u32, u32)> {
    let mut v = Vec::new();
    for s in 0..=universe {
        for e in s..=universe {
            v.push((s, e));
        }
    }
    v
}

#[derive(Clone, Copy, Debug)]
enum EOp {
    Ins(u32, u32),
    Rem(u32, u32),
}

fn apply_eop(set: &mut IdSet, model: &mut u64, op: EOp, client: ClientID) {
    match op {
        EOp::Ins(s, e) => {
            set.insert(ID::new(client, s), e - s);
            *model |= range_mask(s, e);
        }
        EOp::Rem(s, e) => {
            set.remove_range(&BlockRange::new(ID::new(client, s), e - s));
            *model &= !range_mask(s, e);
        }
    }
}

fn exhaustive_idset(env: &RunEnv) -> PartReport {
    let mut rep = PartReport::new("enum-idset");
    rep.exhaustive = true;
    let g1 = env.known.active("G1");
    let ranges = all_ranges(U8);
    let mut ops = Vec::new();
    for (s, e) in ranges.iter() {
        ops.push(EOp::Ins(*s, *e));
    }
    for (s, e) in ranges.iter() {
        ops.push(EOp::Rem(*s, *e));
    }
    let nops = ops.len();
    let evals = AtomicU64::new(0);
    let nontrivial = AtomicU64::new(0);
    let excluded = AtomicU64::new(0);
    let first_fail: Mutex<Option<(String, Fail)>> = Mutex::new(None);
    let next = AtomicU64::new(0);
    let client = cid(0);
    std::thread::scope(|s| {
        for _ in 0..env.jobs.max(1) {
            s.spawn(|| loop {
                let i = next.fetch_add(1, Ordering::SeqCst) as usize;
                if i >= nops || first_fail.lock().unwrap().is_some() {
                    break;
                }
                let mut local_evals = 0u64;
                let mut local_nt = 0u64;
                let mut local_ex = 0u64;
                for j in 0..nops {
                    for k in 0..nops {
                        let seq = [ops[i], ops[j], ops[k]];
                        if g1 && seq.iter().any(|o| matches!(o, EOp::Ins(s, e) if s == e)) {
                            local_ex += 1;
                            continue;
                        }
                        let mut set = IdSet::new();
                        let mut model = 0u64;
                        let mut touch = false;
                        for (step, op) in seq.iter().enumerate() {
                            let before = model;
                            apply_eop(&mut set, &mut model, *op, client);
                            let (s, e) = match op {
                                EOp::Ins(s, e) | EOp::Rem(s, e) => (*s, *e),
                            };
                            // non-trivial: operand overlaps or touches existing content
                            if before != 0 && s < e {
                                let grown = range_mask(s.saturating_sub(1), (e + 1).min(U8));
                                if before & grown != 0 {
                                    touch = true;
                                }
                            }
                            let r = catch(|| check_idset(&set, &[model], U8, &format!("seq {:?} step {}", seq, step)));
                            if let Err(f) = r {
                                let mut g = first_fail.lock().unwrap();
                                if g.is_none() {
                                    *g = Some((format!("{:?}", &seq[..=step]), f));
                                }
                                return;
                            }
                        }
                        local_evals += 1;
                        if touch {
                            local_nt += 1;
                        }
                    }
                }
                evals.fetch_add(local_evals, Ordering::Relaxed);
                nontrivial.fetch_add(local_nt, Ordering::Relaxed);
                excluded.fetch_add(local_ex, Ordering::Relaxed);
            });
        }
    });
    rep.evaluations = evals.load(Ordering::Relaxed);
    let nt = nontrivial.load(Ordering::Relaxed);
    for i in 0..nt.min(1 << 22) {
        rep.nontrivial.insert(splitmix(i ^ 0x1656));
    }
    rep.counters.insert("construction_sequences".into(), rep.evaluations);
    rep.counters.insert("sequences_touching_or_overlapping".into(), nt);
    if excluded.load(Ordering::Relaxed) > 0 {
        rep.known_hits.insert(
            "idset/canonical/empty-client-entry".into(),
            excluded.load(Ordering::Relaxed),
        );
    }
    if let Some((seq, f)) = first_fail.into_inner().unwrap() {
        let case = serde_json::json!({"enumerated_sequence": seq});
        let path = write_replay(env, "enum-idset", &case, &f, "").unwrap_or_default();
        rep.violations.push(Violation { sig: f.sig, msg: f.msg, replay: path });
        return rep;
    }

    // all sets, all pairs
    let pair_fail: Mutex<Option<(String, Fail)>> = Mutex::new(None);
    let next = AtomicU64::new(0);
    let pair_evals = AtomicU64::new(0);
    let pair_nt = AtomicU64::new(0);
    std::thread::scope(|s| {
        for _ in 0..env.jobs.max(1) {
            s.spawn(|| loop {
                let a = next.fetch_add(1, Ordering::SeqCst);
                if a >= 256 || pair_fail.lock().unwrap().is_some() {
                    break;
                }
                let ma = [a];
                let r = catch(|| {
                    let sa = build_from_model(&ma, U8, 0);
                    check_idset(&sa, &ma, U8, &format!("set {:#010b}", a))?;
                    check_roundtrip(&sa, &format!("set {:#010b}", a))?;
                    for style in 1..3 {
                        let sb = build_from_model(&ma, U8, style);
                        check_equal_sets(&sa, &sb, &format!("set {:#010b} built in style {}", a, style))?;
                    }
                    let fi = IdSet::from_iter(vec![(cid(0), mask_runs(a, U8).into_iter().rev().map(|(s, e)| s..e).collect::<Vec<_>>())]);
                    if a != 0 || !g1 {
                        check_idset(&fi, &ma, U8, &format!("from_iter {:#010b}", a))?;
                    }
                    for b in 0..256u64 {
                        let mb = [b];
                        let sb = build_from_model(&mb, U8, 1);
                        check_binary(&sa, &ma, &sb, &mb, U8, &format!("a={:#010b} b={:#010b}", a, b))?;
                        pair_evals.fetch_add(1, Ordering::Relaxed);
                        if a & b != 0 || (a << 1) & b != 0 || (a >> 1) & b != 0 {
                            pair_nt.fetch_add(1, Ordering::Relaxed);
                        }
                    }
                    Ok(())
                });
                if let Err(f) = r {
                    let mut g = pair_fail.lock().unwrap();
                    if g.is_none() {
                        *g = Some((format!("a={:#010b}", a), f));
                    }
                }
            });
        }
    });
    let pe = pair_evals.load(Ordering::Relaxed);
    rep.evaluations += pe;
    let pnt = pair_nt.load(Ordering::Relaxed);
    for i in 0..pnt {
        rep.nontrivial.insert(splitmix(i ^ 0x7777_0000));
    }
    rep.counters.insert("ordered_pairs_all_binary_ops".into(), pe);
    rep.counters.insert("pairs_overlapping_or_touching".into(), pnt);
    if let Some((what, f)) = pair_fail.into_inner().unwrap() {
        let case = serde_json::json!({"enumerated_pair": what});
        let path = write_replay(env, "enum-idset", &case, &f, "").unwrap_or_default();
        rep.violations.push(Violation { sig: f.sig, msg: f.msg, replay: path });
    }
    rep.samples.push(serde_json::json!({"sequence": "Ins(0,3) Rem(1,2) Ins(2,5) -> {0,2,3,4}", "universe": 8}));
    rep
}

fn catch<F: FnOnce() -> Result<(), Fail>>(f: F) -> Result<(), Fail> {
    match std::panic::catch_unwind(std::panic::AssertUnwindSafe(f)) {
        Ok(r) => r,
        Err(_) => Err(Fail::new("panic/enumerated", "panic inside enumerated check")),
    }
}

// ------------------------------------------------------------------------------------------
// IdMap model: attribute index → mask (per client)
// ------------------------------------------------------------------------------------------

const ATTRS: [(&str, &str); 3] = [("a", "x"), ("b", "y"), ("a", "z")];

fn attr(i: usize) -> ContentAttribute<String> {
    ContentAttribute::new(ATTRS[i].0, ATTRS[i].1.to_string())
}

fn attr_index(a: &ContentAttribute<String>) -> Option<usize> {
    ATTRS.iter().position(|(n, v)| *n == a.name() && *v == a.value().as_str())
}

/// model[client][attr] = mask
type MapModel = Vec<Vec<u64>>;

fn mm_new(clients: usize, attrs: usize) -> MapModel {
    vec![vec![0u64; attrs]; clients]
}

fn mm_points(m: &MapModel, ci: usize) -> u64 {
    m[ci].iter().fold(0, |a, b| a | b)
}

/// expected canonical ranges of a client: maximal runs of equal non-empty attribute sets
fn mm_runs(m: &MapModel, ci: usize, universe: u32) -> Vec<(u32, u32, u32)> {
    let mut out: Vec<(u32, u32, u32)> = Vec::new();
    for clock in 0..universe {
        let mut set = 0u32;
        for (ai, mask) in m[ci].iter().enumerate() {
            if (mask >> clock) & 1 == 1 {
                set |= 1 << ai;
            }
        }
        if set == 0 {
            continue;
        }
        if let Some(last) = out.last_mut() {
            if last.1 == clock && last.2 == set {
                last.1 = clock + 1;
                continue;
            }
        }
        out.push((clock, clock + 1, set));
    }
    out
}

fn check_idmap(map: &IdMap<String>, model: &MapModel, universe: u32, ctx: &str) -> Result<(), Fail> {
    let mut got: BTreeMap<usize, Vec<(u32, u32, u32)>> = BTreeMap::new();
    let mut prev: Option<(ClientID, u32)> = None;
    for (client, ar) in map.iter() {
        let Some(ci) = CLIENTS.iter().position(|c| *c == client.get()) else {
            fail!("idmap/model/unknown-client", "{}: unexpected client {}", ctx, client);
        };
        ensure!(ar.range.start < ar.range.end, "idmap/canonical/empty-range", "{}: empty range {:?}", ctx, ar.range);
        if let Some((pc, pe)) = prev {
            ensure!(
                pc < client || (pc == client && pe <= ar.range.start),
                "idmap/canonical/order",
                "{}: ranges not sorted/disjoint",
                ctx
            );
        }
        prev = Some((client, ar.range.end));
        let mut set = 0u32;
        for a in ar.attrs.iter() {
            let Some(ai) = attr_index(a) else {
                fail!("idmap/model/unknown-attr", "{}: unexpected attribute {}={}", ctx, a.name(), a.value());
            };
            ensure!(set & (1 << ai) == 0, "idmap/canonical/duplicate-attr", "{}: attribute listed twice", ctx);
            set |= 1 << ai;
        }
        ensure!(set != 0, "idmap/canonical/empty-attrs", "{}: range {:?} without attributes", ctx, ar.range);
        got.entry(ci).or_default().push((ar.range.start, ar.range.end, set));
    }
    for ci in 0..model.len() {
        let expected = mm_runs(model, ci, universe);
        let g = got.remove(&ci).unwrap_or_default();
        ensure!(
            g == expected,
            if g.iter().map(|r| range_mask(r.0, r.1)).fold(0, |a, b| a | b) == mm_points(model, ci)
                && g.len() != expected.len()
            {
                "idmap/canonical/not-coalesced"
            } else {
                "idmap/model/content"
            },
            "{}: client {} has {:?}, model says {:?} (start,end,attrset)",
            ctx,
            CLIENTS[ci],
            g,
            expected
        );
    }
    let model_empty = (0..model.len()).all(|ci| mm_points(model, ci) == 0);
    ensure!(
        map.is_empty() == model_empty,
        "idmap/query/is_empty",
        "{}: is_empty()={} model {}",
        ctx,
        map.is_empty(),
        model_empty
    );
    for ci in 0..model.len() {
        let pts = mm_points(model, ci);
        for clock in 0..=universe {
            let expect = clock < universe && (pts >> clock) & 1 == 1;
            ensure!(
                map.contains(&ID::new(cid(ci), clock)) == expect,
                "idmap/query/contains",
                "{}: contains({}#{}) wrong",
                ctx,
                CLIENTS[ci],
                clock
            );
        }
    }
    Ok(())
}

/// attributions(range) must tile the range exactly, with the model's attribute sets
fn check_attributions(map: &IdMap<String>, model: &MapModel, ci: usize, s: u32, e: u32, universe: u32, ctx: &str) -> Result<(), Fail> {
    if s >= e {
        return Ok(());
    }
    let res = map.attributions(&BlockRange::new(ID::new(cid(ci), s), e - s));
    let mut pos = s;
    for ar in res.iter() {
        ensure!(
            ar.range.start == pos && ar.range.end > ar.range.start,
            "idmap/query/attributions-tiling",
            "{}: attributions({}..{}) does not tile: {:?}",
            ctx,
            s,
            e,
            res.iter().map(|a| a.range.clone()).collect::<Vec<_>>()
        );
        let mut set = 0u32;
        for a in ar.attrs.iter() {
            set |= 1 << attr_index(a).unwrap_or(31);
        }
        for clock in ar.range.clone() {
            let mut expect = 0u32;
            if clock < universe {
                for (ai, mask) in model[ci].iter().enumerate() {
                    if (mask >> clock) & 1 == 1 {
                        expect |= 1 << ai;
                    }
                }
            }
            ensure!(
                set == expect,
                "idmap/query/attributions-content",
                "{}: attributions({}..{}) at clock {} gives set {:#b}, model {:#b}",
                ctx,
                s,
                e,
                clock,
                set,
                expect
            );
        }
        pos = ar.range.end;
    }
    ensure!(pos == e, "idmap/query/attributions-tiling", "{}: attributions({}..{}) ends at {}", ctx, s, e, pos);
    Ok(())
}

fn idmap_roundtrip(map: &IdMap<String>, ctx: &str) -> Result<(), Fail> {
    let v1 = map.encode_v1();
    let d1 = IdMap::<String>::decode_v1(&v1);
    ensure!(d1.as_ref().ok() == Some(map), "idmap/roundtrip/v1", "{}: v1 round trip failed: {:?} -> {:?}", ctx, map, d1);
    let v2 = map.encode_v2();
    let d2 = IdMap::<String>::decode_v2(&v2);
    ensure!(d2.as_ref().ok() == Some(map), "idmap/roundtrip/v2", "{}: v2 round trip failed: {:?} -> {:?}", ctx, map, d2);
    // a decoded map re-encodes to the same bytes (encode is a function of the decoded value)
    if let Ok(d) = d1 {
        ensure!(d.encode_v1() == v1, "idmap/roundtrip/reencode", "{}: re-encoding differs", ctx);
    }
    Ok(())
}

fn attrs_from_set(set: u32) -> Vec<ContentAttribute<String>> {
    (0..ATTRS.len()).filter(|i| set & (1 << i) != 0).map(attr).collect()
}

const U5: u32 = 5;

fn exhaustive_idmap(env: &RunEnv) -> PartReport {
    let mut rep = PartReport::new("enum-idmap");
    rep.exhaustive = true;
    // ops: insert(range, attrset in {a},{b},{a,b}) and remove(range), all 21 ranges of 5 clocks
    #[derive(Clone, Copy, Debug)]
    enum MOp {
        Ins(u32, u32, u32),
        Rem(u32, u32),
    }
    let ranges = all_ranges(U5);
    let mut ops = Vec::new();
    for (s, e) in ranges.iter() {
        for set in 1..4u32 {
            ops.push(MOp::Ins(*s, *e, set));
        }
        ops.push(MOp::Rem(*s, *e));
    }
    let nops = ops.len();
    let evals = AtomicU64::new(0);
    let nontrivial = AtomicU64::new(0);
    let first_fail: Mutex<Option<(String, Fail)>> = Mutex::new(None);
    let next = AtomicU64::new(0);
    std::thread::scope(|s| {
        for _ in 0..env.jobs.max(1) {
            s.spawn(|| loop {
                let i = next.fetch_add(1, Ordering::SeqCst) as usize;
                if i >= nops || first_fail.lock().unwrap().is_some() {
                    break;
                }
                let mut le = 0;
                let mut lnt = 0;
                for j in 0..nops {
                    for k in 0..nops {
                        let seq = [ops[i], ops[j], ops[k]];
                        let mut map: IdMap<String> = IdMap::new();
                        let mut model = mm_new(1, 2);
                        let mut nt = false;
                        let r = catch(|| {
                            for (step, op) in seq.iter().enumerate() {
                                match *op {
                                    MOp::Ins(s, e, set) => {
                                        let before = mm_points(&model, 0);
                                        if s < e && before & range_mask(s.saturating_sub(1), (e + 1).min(U5)) != 0 {
                                            // overlap/touch with different attributes?
                                            for clock in s.saturating_sub(1)..(e + 1).min(U5) {
                                                let mut cur = 0;
                                                for ai in 0..2 {
                                                    if (model[0][ai] >> clock) & 1 == 1 {
                                                        cur |= 1 << ai;
                                                    }
                                                }
                                                if cur != 0 && cur != set {
                                                    nt = true;
                                                }
                                            }
                                        }
                                        map.insert(BlockRange::new(ID::new(cid(0), s), e - s), attrs_from_set(set));
                                        for ai in 0..2 {
                                            if set & (1 << ai) != 0 {
                                                model[0][ai] |= range_mask(s, e);
                                            }
                                        }
                                    }
                                    MOp::Rem(s, e) => {
                                        if mm_points(&model, 0) & range_mask(s, e) != 0 {
                                            nt = true;
                                        }
                                        map.remove(&BlockRange::new(ID::new(cid(0), s), e - s));
                                        for ai in 0..2 {
                                            model[0][ai] &= !range_mask(s, e);
                                        }
                                    }
                                }
                                let ctx = format!("seq {:?} step {}", seq, step);
                                check_idmap(&map, &model, U5, &ctx)?;
                                if step == 2 {
                                    let as_set = map.as_id_set();
                                    check_idset(&as_set, &[mm_points(&model, 0)], U5, &format!("{} as_id_set", ctx))?;
                                    let conv: IdSet = map.clone().into();
                                    check_equal_sets(&as_set, &conv, &format!("{} as_id_set vs From", ctx))?;
                                    idmap_roundtrip(&map, &ctx)?;
                                    check_attributions(&map, &model, 0, 0, U5 + 1, U5, &ctx)?;
                                    check_attributions(&map, &model, 0, 1, 4, U5, &ctx)?;
                                }
                            }
                            Ok(())
                        });
                        if let Err(f) = r {
                            let mut g = first_fail.lock().unwrap();
                            if g.is_none() {
                                *g = Some((format!("{:?}", seq), f));
                            }
                            return;
                        }
                        le += 1;
                        if nt {
                            lnt += 1;
                        }
                    }
                }
                evals.fetch_add(le, Ordering::Relaxed);
                nontrivial.fetch_add(lnt, Ordering::Relaxed);
            });
        }
    });
    rep.evaluations = evals.load(Ordering::Relaxed);
    let nt = nontrivial.load(Ordering::Relaxed);
    for i in 0..nt.min(1 << 22) {
        rep.nontrivial.insert(splitmix(i ^ 0x1d3a));
    }
    rep.counters.insert("construction_sequences".into(), rep.evaluations);
    rep.counters.insert("sequences_with_attr_conflict_or_effective_remove".into(), nt);
    if let Some((seq, f)) = first_fail.into_inner().unwrap() {
        let case = serde_json::json!({"enumerated_sequence": seq});
        let path = write_replay(env, "enum-idmap", &case, &f, "").unwrap_or_default();
        rep.violations.push(Violation { sig: f.sig, msg: f.msg, replay: path });
    }
    rep.samples.push(serde_json::json!({"sequence": "Ins(0,4,{a}) Ins(2,5,{b}) Rem(3,4)", "universe": 5, "attrs": ["a=x", "b=y"]}));
    rep
}

// ------------------------------------------------------------------------------------------
// random part
// ------------------------------------------------------------------------------------------

const UR: u32 = 64;

#[derive(Clone, Debug, Serialize, Deserialize)]
pub enum SetOp {
    Insert { c: u8, start: u8, len: u8 },
    InsertRange { c: u8, ranges: Vec<(u8, u8)> },
    Remove { c: u8, start: u8, len: u8 },
    RangeMut { c: u8, start: u8, len: u8 },
}

#[derive(Clone, Debug, Serialize, Deserialize)]
pub enum MapOp {
    Insert { c: u8, start: u8, len: u8, attrs: u8 },
    Remove { c: u8, start: u8, len: u8 },
}

#[derive(Clone, Debug, Serialize, Deserialize)]
pub struct RandomCase {
    a: Vec<SetOp>,
    b: Vec<SetOp>,
    c: Vec<SetOp>,
    ma: Vec<MapOp>,
    mb: Vec<MapOp>,
    mc: Vec<MapOp>,
    from_set_attrs: u8,
    filter_attr: u8,
}

fn clamp(start: u8, len: u8) -> (u32, u32) {
    let s = (start as u32) % UR;
    let e = (s + len as u32).min(UR);
    (s, e)
}

fn apply_setop(set: &mut IdSet, model: &mut Vec<u64>, op: &SetOp, g1: bool) -> bool {
    match op {
        SetOp::Insert { c, start, len } => {
            let ci = (*c as usize) % 3;
            let (s, e) = clamp(*start, *len);
            if g1 && s == e {
                return false;
            }
            set.insert(ID::new(cid(ci), s), e - s);
            model[ci] |= range_mask(s, e);
        }
        SetOp::InsertRange { c, ranges } => {
            let ci = (*c as usize) % 3;
            let rs: Vec<(u32, u32)> = ranges.iter().map(|(s, l)| clamp(*s, *l)).collect();
            let r = IdRange::from_ranges(rs.iter().map(|(s, e)| *s..*e));
            if r.is_empty() {
                // an empty IdRange argument is not a set of ranges a caller obtains from the API
                return false;
            }
            set.insert_range(cid(ci), r);
            for (s, e) in rs {
                model[ci] |= range_mask(s, e);
            }
        }
        SetOp::Remove { c, start, len } => {
            let ci = (*c as usize) % 3;
            let (s, e) = clamp(*start, *len);
            set.remove_range(&BlockRange::new(ID::new(cid(ci), s), e - s));
            model[ci] &= !range_mask(s, e);
        }
        SetOp::RangeMut { c, start, len } => {
            // range_mut hands out the raw per-client entry; inserting a non-empty range through it
            // is what yrs itself does (From<IdMap>).
            let ci = (*c as usize) % 3;
            let (s, e) = clamp(*start, *len);
            if s == e {
                return false;
            }
            set.range_mut(cid(ci)).insert(s..e);
            model[ci] |= range_mask(s, e);
        }
    }
    true
}

fn apply_mapop(map: &mut IdMap<String>, model: &mut MapModel, op: &MapOp) {
    match op {
        MapOp::Insert { c, start, len, attrs } => {
            let ci = (*c as usize) % 3;
            let (s, e) = clamp(*start, *len);
            let set = (*attrs as u32) % 8;
            map.insert(BlockRange::new(ID::new(cid(ci), s), e - s), attrs_from_set(set));
            for ai in 0..3 {
                if set & (1 << ai) != 0 {
                    model[ci][ai] |= range_mask(s, e);
                }
            }
        }
        MapOp::Remove { c, start, len } => {
            let ci = (*c as usize) % 3;
            let (s, e) = clamp(*start, *len);
            map.remove(&BlockRange::new(ID::new(cid(ci), s), e - s));
            for ai in 0..3 {
                model[ci][ai] &= !range_mask(s, e);
            }
        }
    }
}

fn setop_strategy() -> impl Strategy<Value = SetOp> {
    prop_oneof![
        4 => (0u8..3, 0u8..64, 0u8..20).prop_map(|(c, start, len)| SetOp::Insert { c, start, len }),
        1 => (0u8..3, prop::collection::vec((0u8..64, 0u8..12), 0..5)).prop_map(|(c, ranges)| SetOp::InsertRange { c, ranges }),
        3 => (0u8..3, 0u8..64, 0u8..20).prop_map(|(c, start, len)| SetOp::Remove { c, start, len }),
        1 => (0u8..3, 0u8..64, 0u8..20).prop_map(|(c, start, len)| SetOp::RangeMut { c, start, len }),
    ]
}

fn mapop_strategy() -> impl Strategy<Value = MapOp> {
    prop_oneof![
        3 => (0u8..3, 0u8..64, 0u8..20, 0u8..8).prop_map(|(c, start, len, attrs)| MapOp::Insert { c, start, len, attrs }),
        2 => (0u8..3, 0u8..64, 0u8..20).prop_map(|(c, start, len)| MapOp::Remove { c, start, len }),
    ]
}

pub struct RandomPart;

impl Prop for RandomPart {
    type Case = RandomCase;
    fn name(&self) -> &'static str {
        "random"
    }
    fn cases(&self, tier: Tier) -> u64 {
        tier.pick(1_000_000, 8_000_000)
    }
    fn strategy(&self, _tier: Tier) -> BoxedStrategy<RandomCase> {
        (
            prop::collection::vec(setop_strategy(), 0..30),
            prop::collection::vec(setop_strategy(), 0..30),
            prop::collection::vec(setop_strategy(), 0..8),
            prop::collection::vec(mapop_strategy(), 0..20),
            prop::collection::vec(mapop_strategy(), 0..20),
            prop::collection::vec(mapop_strategy(), 0..8),
            0u8..8,
            0u8..3,
        )
            .prop_map(|(a, b, c, ma, mb, mc, from_set_attrs, filter_attr)| RandomCase {
                a,
                b,
                c,
                ma,
                mb,
                mc,
                from_set_attrs,
                filter_attr,
            })
            .boxed()
    }

    fn check(&self, case: &RandomCase, st: &mut CaseStats) -> Result<(), Fail> {
        let g1 = crate::known::global().active("G1");
        // ---- IdSet
        let mut a = IdSet::new();
        let mut ma = vec![0u64; 3];
        for (i, op) in case.a.iter().enumerate() {
            let before = ma.clone();
            if !apply_setop(&mut a, &mut ma, op, g1) {
                st.hit("skipped_empty_operand");
                continue;
            }
            if before.iter().any(|m| *m != 0) {
                st.hit("op_on_nonempty");
            }
            check_idset(&a, &ma, UR, &format!("a after op {}", i))?;
        }
        let mut b = IdSet::new();
        let mut mb = vec![0u64; 3];
        for op in case.b.iter() {
            apply_setop(&mut b, &mut mb, op, g1);
        }
        check_idset(&b, &mb, UR, "b")?;
        check_roundtrip(&a, "a")?;
        check_binary(&a, &ma, &b, &mb, UR, "a,b")?;
        let overlap = (0..3).any(|i| ma[i] & mb[i] != 0 || (ma[i] << 1) & mb[i] != 0 || (ma[i] >> 1) & mb[i] != 0);
        if overlap {
            st.nt();
            st.hit("idset_operands_overlap_or_touch");
        }
        // results of binary operations stay well-formed under further operations
        let mut r = a.merge(&b);
        let mut mr: Vec<u64> = (0..3).map(|i| ma[i] | mb[i]).collect();
        let mut d = a.diff(&b);
        let mut md: Vec<u64> = (0..3).map(|i| ma[i] & !mb[i]).collect();
        let mut x = a.intersect(&b);
        let mut mx: Vec<u64> = (0..3).map(|i| ma[i] & mb[i]).collect();
        for (i, op) in case.c.iter().enumerate() {
            if apply_setop(&mut r, &mut mr, op, g1) {
                check_idset(&r, &mr, UR, &format!("merge result after op {}", i))?;
            }
            if apply_setop(&mut d, &mut md, op, g1) {
                check_idset(&d, &md, UR, &format!("diff result after op {}", i))?;
            }
            if apply_setop(&mut x, &mut mx, op, g1) {
                check_idset(&x, &mx, UR, &format!("intersect result after op {}", i))?;
            }
        }
        // associativity / absorption through the model is implied; check one law directly
        let abx = a.merge(&b).intersect(&a);
        check_equal_sets(&abx, &build_from_model(&ma, UR, 1), "(a∪b)∩a == a")?;

        // ---- IdMap
        let mut pa: IdMap<String> = IdMap::new();
        let mut qa = mm_new(3, 3);
        for (i, op) in case.ma.iter().enumerate() {
            apply_mapop(&mut pa, &mut qa, op);
            check_idmap(&pa, &qa, UR, &format!("ma after op {}", i))?;
        }
        let mut pb: IdMap<String> = IdMap::new();
        let mut qb = mm_new(3, 3);
        for op in case.mb.iter() {
            apply_mapop(&mut pb, &mut qb, op);
        }
        check_idmap(&pb, &qb, UR, "mb")?;
        idmap_roundtrip(&pa, "ma")?;
        for ci in 0..3 {
            check_attributions(&pa, &qa, ci, 0, UR, UR, "ma")?;
            check_attributions(&pa, &qa, ci, 5, 41, UR, "ma")?;
        }
        let attr_conflict = (0..3).any(|ci| {
            let o = mm_points(&qa, ci) & mm_points(&qb, ci);
            o != 0 && (0..3).any(|ai| (qa[ci][ai] ^ qb[ci][ai]) & o != 0)
        });
        if attr_conflict {
            st.nt();
            st.hit("idmap_attrs_differ_on_overlap");
        }
        // merge: union of points, union of attributes
        let mut pm = pa.clone();
        pm.merge_with(pb.clone());
        let mut qm = qa.clone();
        for ci in 0..3 {
            for ai in 0..3 {
                qm[ci][ai] |= qb[ci][ai];
            }
        }
        check_idmap(&pm, &qm, UR, "merge_with")?;
        let pmm = IdMap::merge_many(&[pa.clone(), pb.clone()]);
        check_idmap(&pmm, &qm, UR, "merge_many")?;
        ensure!(pm == pmm, "idmap/equality/eq", "merge_with != merge_many");
        let pmr = IdMap::merge_many(&[pb.clone(), pa.clone()]);
        ensure!(pm == pmr, "idmap/equality/eq", "merge_many not commutative under ==");
        idmap_roundtrip(&pm, "merged")?;
        // intersect: points in both, attributes of both
        let mut pi = pa.clone();
        pi.intersect_with(&pb);
        let mut qi = mm_new(3, 3);
        for ci in 0..3 {
            let o = mm_points(&qa, ci) & mm_points(&qb, ci);
            for ai in 0..3 {
                qi[ci][ai] = (qa[ci][ai] | qb[ci][ai]) & o;
            }
        }
        check_idmap(&pi, &qi, UR, "intersect_with")?;
        // diff against map and against set: points removed, attributes kept
        let mut pd = pa.clone();
        Diff::<IdMap<String>>::diff_with(&mut pd, &pb);
        let mut qd = qa.clone();
        for ci in 0..3 {
            let o = mm_points(&qb, ci);
            for ai in 0..3 {
                qd[ci][ai] &= !o;
            }
        }
        check_idmap(&pd, &qd, UR, "diff_with(map)")?;
        let mut pd2 = pa.clone();
        Diff::<IdSet>::diff_with(&mut pd2, &b);
        let mut qd2 = qa.clone();
        for ci in 0..3 {
            for ai in 0..3 {
                qd2[ci][ai] &= !mb[ci];
            }
        }
        check_idmap(&pd2, &qd2, UR, "diff_with(set)")?;
        // conversions
        let s1 = pa.as_id_set();
        let pts: Vec<u64> = (0..3).map(|ci| mm_points(&qa, ci)).collect();
        check_idset(&s1, &pts, UR, "as_id_set")?;
        let s2: IdSet = pa.clone().into();
        check_equal_sets(&s1, &s2, "as_id_set vs From<IdMap>")?;
        let fs_attrs = (case.from_set_attrs as u32) % 8;
        if !(g1 && a.iter().any(|(_, r)| r.is_empty())) {
            let fs = IdMap::from_set(a.clone(), attrs_from_set(fs_attrs));
            let mut qf = mm_new(3, 3);
            for ci in 0..3 {
                for ai in 0..3 {
                    if fs_attrs & (1 << ai) != 0 {
                        qf[ci][ai] = ma[ci];
                    }
                }
            }
            if fs_attrs != 0 {
                check_idmap(&fs, &qf, UR, "from_set")?;
            }
        }
        // filter
        let fa = (case.filter_attr as usize) % 3;
        let target = attr(fa);
        let pf = pa.filter(|attrs| attrs.iter().any(|x| *x == target));
        let mut qf = mm_new(3, 3);
        for ci in 0..3 {
            let keep = qa[ci][fa];
            for ai in 0..3 {
                qf[ci][ai] = qa[ci][ai] & keep;
            }
        }
        check_idmap(&pf, &qf, UR, "filter")?;
        // results remain well-formed under further operations
        for (i, op) in case.mc.iter().enumerate() {
            apply_mapop(&mut pm, &mut qm, op);
            check_idmap(&pm, &qm, UR, &format!("merged map after op {}", i))?;
            apply_mapop(&mut pi, &mut qi, op);
            check_idmap(&pi, &qi, UR, &format!("intersected map after op {}", i))?;
            apply_mapop(&mut pd, &mut qd, op);
            check_idmap(&pd, &qd, UR, &format!("diffed map after op {}", i))?;
        }
        Ok(())
    }
}

pub fn property() -> Property {
    Property {
        id: "C16",
        level: "exploration",
        rule: "enumerated: every sequence of <=3 insert/remove_range operations over all 45 ranges of an 8-clock universe (IdSet) and over all 21 ranges x {a},{b},{a,b} of a 5-clock universe (IdMap), every ordered pair of the 256 canonical IdSets for merge/diff/intersect/subset_of/==/hash/encode; random: op sequences over 3 clients x 64 clocks; documents: after every 4th step of generated multi-replica histories (GC on and off, deletions of nested types) the delete set reported by snapshot() and the one inside of the full-state update (v1, v2) equal the ids the block store flags as deleted (hook store_blocks).  Non-trivial = an operand overlaps, touches or nests existing content (IdSet) / attributes differ on the overlap or a removal hits content (IdMap); distinct = distinct enumerated index or distinct generated case".into(),
        assumptions: vec![
            "bit-mask model of (client, clock) points with an attribute bit-set per point".into(),
            "attribute lists passed to one IdMap::insert call contain no duplicates".into(),
            "IdSet::range_mut / insert_range are only given non-empty ranges (what yrs itself passes)".into(),
            "IdMap byte encoding is required to round-trip, not to be unique per value (attribute ids follow Arc identity)".into(),
        ],
        parts: vec![
            Box::new(ExhaustivePart { name: "enum-idset", f: exhaustive_idset }),
            Box::new(ExhaustivePart { name: "enum-idmap", f: exhaustive_idmap }),
            Box::new(Part(RandomPart)),
            Box::new(Part(DocDeleteSets)),
        ],
    }
}

// ------------------------------------------------------------------------------------------------
// delete sets of documents
// ------------------------------------------------------------------------------------------------

/// The delete set a document reports (`snapshot().delete_set`, and the one inside its full-state
/// update, v1 and v2) is exactly the set of ids its block store flags as deleted (hook
/// `store_blocks`; garbage-collected ranges are deleted ids too).
pub struct DocDeleteSets;

#[derive(Clone, Debug, Serialize, Deserialize)]
pub struct DocCase {
    pub history: crate::world::History,
}

impl Prop for DocDeleteSets {
    type Case = DocCase;
    fn name(&self) -> &'static str {
        "doc-delete-sets"
    }
    fn cases(&self, tier: Tier) -> u64 {
        tier.pick(200_000, 1_500_000)
    }
    fn strategy(&self, tier: Tier) -> BoxedStrategy<DocCase> {
        use crate::ops::Profile;
        use crate::world::{history_strategy, HistoryShape};
        let mut p = Profile::all();
        p.remove_weight = 6;
        history_strategy(p, HistoryShape::default_for(tier), true).prop_map(|history| DocCase { history }).boxed()
    }
    fn check(&self, case: &DocCase, st: &mut CaseStats) -> Result<(), Fail> {
        use yrs::verif_hooks::{store_blocks, BlockKind};
        use yrs::{ReadTxn, StateVector, Transact, Update};
        let mut w = crate::world::World::new(&case.history.cfgs);
        for (i, s) in case.history.steps.iter().enumerate() {
            if let Err(e) = w.step(s) {
                fail!("c16/doc/transport", "history step {} {:?}: {}", i, s, e);
            }
            if i % 4 != 3 && i + 1 != case.history.steps.len() {
                continue;
            }
            for (ri, r) in w.reps.iter().enumerate() {
                let txn = r.doc.transact();
                // ground truth: ids of blocks flagged deleted (tombstones and GC ranges)
                let mut truth = IdSet::new();
                let mut deleted_ids = 0u64;
                let mut gc_blocks = 0u64;
                for b in store_blocks(txn.store()) {
                    if b.deleted && !matches!(b.kind, BlockKind::Skip) {
                        truth.insert(ID::new(b.client, b.clock), b.len);
                        deleted_ids += b.len as u64;
                        if matches!(b.kind, BlockKind::GC) {
                            gc_blocks += 1;
                        }
                    }
                }
                let snap = txn.snapshot();
                ensure!(
                    snap.delete_set == truth,
                    "c16/doc/snapshot-delete-set",
                    "after step {} on replica {}: snapshot().delete_set = {:?}, ids flagged deleted in the block store = {:?}",
                    i,
                    ri,
                    snap.delete_set,
                    truth
                );
                // a stash would travel inside of the full state with its own delete set
                if !txn.has_missing_updates() {
                    for v2 in [false, true] {
                        let bytes = if v2 { txn.encode_state_as_update_v2(&StateVector::default()) } else { txn.encode_state_as_update_v1(&StateVector::default()) };
                        let u = match if v2 { Update::decode_v2(&bytes) } else { Update::decode_v1(&bytes) } {
                            Ok(u) => u,
                            Err(e) => fail!("c16/doc/state-undecodable", "after step {} on replica {}: full state (v2={}) does not decode: {}", i, ri, v2, e),
                        };
                        ensure!(
                            *u.delete_set() == truth,
                            "c16/doc/state-delete-set",
                            "after step {} on replica {}: delete set inside of the full-state update (v2={}) = {:?}, ids flagged deleted = {:?}",
                            i,
                            ri,
                            v2,
                            u.delete_set(),
                            truth
                        );
                    }
                }
                if deleted_ids > 0 {
                    st.hit("replica_states_with_deletions");
                }
                if gc_blocks > 0 {
                    st.hit("replica_states_with_gc_ranges");
                    st.nt();
                }
            }
        }
        Ok(())
    }
}
