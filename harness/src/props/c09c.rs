//! C09 (third file) — attributed id maps and quotation-bearing updates on the wire.
//!
//! `idmaps`: generated `IdMap<String>` values (several attribute names that come back after other
//! names were introduced, several values per name, wide clients and clocks) must survive
//! encode/decode in v1 and v2 and the v1 → v2 transcription.
//!
//! `links`: a document that holds a quotation / link of every shape (root or nested source, text /
//! array / XML text / map entry, inclusive / exclusive / unbounded ends) is shipped as an update
//! (v1 or v2, and transcribed into the other version); the receiver must read the quotation
//! exactly as the sender does — right away and after edits at the edges of the source, which is
//! where a boundary that was written down wrongly (relative instead of unbounded, wrong side)
//! starts to show.  The second receiver never collects garbage (the first one and the sender do):
//! what a quotation or link reads must not depend on that either — C15 runs the same part under
//! its own name.

use crate::dump::{dump_doc, dump_weak, first_diff, Node, Roots};
use crate::engine::*;
use crate::{ensure, fail};
use proptest::prelude::*;
use serde::{Deserialize, Serialize};
use std::ops::Bound;
use yrs::block::{BlockRange, ClientID};
use yrs::updates::decoder::Decode;
use yrs::updates::encoder::Encode;
use yrs::{
    Array, ArrayPrelim, ArrayRef, ContentAttribute, Doc, GetString, IdMap, Map, MapPrelim, MapRef, OffsetKind, Options, Out, Quotable, ReadTxn, StateVector, Text,
    TextPrelim, TextRef, Transact, Update, WeakRef, XmlFragment, XmlTextPrelim, XmlTextRef, ID,
};

const CLIENTS: [u64; 4] = [1, 2, 1u64 << 32, (1u64 << 53) - 1];
const NAMES: [&str; 4] = ["insert", "delete", "format", "ü"];

// ------------------------------------------------------------------------------------------------
// attributed id maps
// ------------------------------------------------------------------------------------------------

#[derive(Clone, Debug, Serialize, Deserialize)]
pub struct MEntry {
    pub client: u8,
    pub start: u32,
    pub len: u32,
    pub attrs: Vec<(u8, String)>,
}

#[derive(Clone, Debug, Serialize, Deserialize)]
pub struct IdMapCase {
    pub entries: Vec<MEntry>,
}

pub struct IdMaps;

impl Prop for IdMaps {
    type Case = IdMapCase;
    fn name(&self) -> &'static str {
        "idmaps"
    }
    fn cases(&self, tier: Tier) -> u64 {
        tier.pick(300_000, 2_000_000)
    }
    fn strategy(&self, _tier: Tier) -> BoxedStrategy<IdMapCase> {
        let start = prop_oneof![4 => 0u32..64, 1 => any::<u32>()];
        let value = prop_oneof![3 => "[a-c]{0,2}", 1 => "[a\u{e9}\u{20ac}\u{1f600}]{1,2}"];
        let entry = (0u8..4, start, 1u32..20, prop::collection::vec((0u8..4, value), 0..4)).prop_map(|(client, start, len, attrs)| MEntry { client, start, len, attrs });
        prop::collection::vec(entry, 0..10).prop_map(|entries| IdMapCase { entries }).boxed()
    }
    fn check(&self, case: &IdMapCase, st: &mut CaseStats) -> Result<(), Fail> {
        let mut map: IdMap<String> = IdMap::new();
        let mut names = std::collections::BTreeSet::new();
        for e in case.entries.iter() {
            let len = e.len.min(u32::MAX - e.start).max(1);
            if e.start.checked_add(len).is_none() {
                continue;
            }
            let mut attrs: Vec<ContentAttribute<String>> = Vec::new();
            let mut seen = std::collections::BTreeSet::new();
            for (n, v) in e.attrs.iter() {
                if seen.insert((*n % 4, v.clone())) {
                    attrs.push(ContentAttribute::new(NAMES[(*n % 4) as usize], v.clone()));
                    names.insert(*n % 4);
                }
            }
            map.insert(BlockRange::new(ID::new(ClientID::new(CLIENTS[(e.client % 4) as usize]), e.start), len), attrs);
        }
        if names.len() >= 2 && case.entries.len() >= 3 {
            st.nt();
            st.hit("maps_with_two_or_more_attribute_names");
        }
        let v1 = map.encode_v1();
        let d1 = IdMap::<String>::decode_v1(&v1);
        ensure!(d1.as_ref().ok() == Some(&map), "c09/idmap/roundtrip-v1", "v1 round trip: {:?} came back as {:?}", map, d1);
        let v2 = map.encode_v2();
        let d2 = IdMap::<String>::decode_v2(&v2);
        ensure!(d2.as_ref().ok() == Some(&map), "c09/idmap/roundtrip-v2", "v2 round trip: {:?} came back as {:?}", map, d2);
        let d1 = d1.unwrap();
        ensure!(d1.encode_v1() == v1, "c09/idmap/fixpoint", "re-encoding the decoded v1 form gives other bytes");
        let x2 = d1.encode_v2();
        let dx = IdMap::<String>::decode_v2(&x2);
        ensure!(dx.as_ref().ok() == Some(&map), "c09/idmap/cross-version", "v1 -> v2 transcription: {:?} came back as {:?}", map, dx);
        let x1 = d2.unwrap().encode_v1();
        let dy = IdMap::<String>::decode_v1(&x1);
        ensure!(dy.as_ref().ok() == Some(&map), "c09/idmap/cross-version", "v2 -> v1 transcription: {:?} came back as {:?}", map, dy);
        Ok(())
    }
}

// ------------------------------------------------------------------------------------------------
// quotations and links inside of updates
// ------------------------------------------------------------------------------------------------

#[derive(Clone, Debug, Serialize, Deserialize)]
pub struct LinkCase {
    pub client: u8,
    pub utf16: bool,
    /// 0 root text, 1 root array, 2 text nested in the root map, 3 array nested in the root map,
    /// 4 XML text (child of the root fragment), 5 entry of the root map, 6 entry of a nested map
    pub kind: u8,
    /// elements of the source (1..=6)
    pub n: u8,
    pub a: u16,
    pub b: u16,
    /// start / end kind: 0 inclusive, 1 exclusive, 2 unbounded
    pub sk: u8,
    pub ek: u8,
    pub v2: bool,
    /// later edits of the source: (where, what)
    pub probes: Vec<(u8, u8)>,
}

pub struct Links;

enum Src {
    Text(TextRef),
    Arr(ArrayRef),
    Xml(XmlTextRef),
    Entry(MapRef),
}

fn make_doc(client: u64, utf16: bool) -> Doc {
    make_doc_gc(client, utf16, false)
}

fn make_doc_gc(client: u64, utf16: bool, skip_gc: bool) -> Doc {
    let mut o = Options::with_client_id(ClientID::new(client));
    o.offset_kind = if utf16 { OffsetKind::Utf16 } else { OffsetKind::Bytes };
    o.skip_gc = skip_gc;
    Doc::with_options(o)
}

/// finds the source inside of a replica (None until it has arrived)
fn source<T: ReadTxn>(txn: &T, roots: &Roots, kind: u8) -> Option<Src> {
    match kind {
        0 => Some(Src::Text(roots.text.clone())),
        1 => Some(Src::Arr(roots.arr.clone())),
        2 => match roots.map.get(txn, "n") {
            Some(Out::YText(t)) => Some(Src::Text(t)),
            _ => None,
        },
        3 => match roots.map.get(txn, "n") {
            Some(Out::YArray(a)) => Some(Src::Arr(a)),
            _ => None,
        },
        4 => match roots.xml.get(txn, 0) {
            Some(yrs::XmlOut::Text(t)) => Some(Src::Xml(t)),
            _ => None,
        },
        5 => Some(Src::Entry(roots.map.clone())),
        _ => match roots.map.get(txn, "n") {
            Some(Out::YMap(m)) => Some(Src::Entry(m)),
            _ => None,
        },
    }
}

/// what the quotation stored under "q" reads as, in two ways
fn view<T: ReadTxn>(txn: &T, roots: &Roots, kind: u8) -> (Option<Node>, Option<String>) {
    match roots.map.get(txn, "q") {
        Some(Out::YWeakLink(weak)) => {
            let s = match kind {
                0 | 2 => {
                    let t: WeakRef<TextRef> = WeakRef::from(weak.clone());
                    Some(t.get_string(txn))
                }
                4 => {
                    let t: WeakRef<XmlTextRef> = WeakRef::from(weak.clone());
                    Some(t.get_string(txn))
                }
                _ => None,
            };
            (Some(dump_weak(txn, &weak)), s)
        }
        _ => (None, None),
    }
}

impl Prop for Links {
    type Case = LinkCase;
    fn name(&self) -> &'static str {
        "links"
    }
    fn cases(&self, tier: Tier) -> u64 {
        tier.pick(300_000, 2_000_000)
    }
    fn strategy(&self, _tier: Tier) -> BoxedStrategy<LinkCase> {
        (
            (0u8..4, any::<bool>(), 0u8..7, 1u8..=6),
            (any::<u16>(), any::<u16>(), 0u8..3, 0u8..3),
            any::<bool>(),
            prop::collection::vec((0u8..5, 0u8..4), 0..5),
        )
            .prop_map(|((client, utf16, kind, n), (a, b, sk, ek), v2, probes)| LinkCase { client, utf16, kind, n, a, b, sk, ek, v2, probes })
            .boxed()
    }
    fn check(&self, case: &LinkCase, st: &mut CaseStats) -> Result<(), Fail> {
        let kind = case.kind % 7;
        let n = (case.n as usize).clamp(1, 6);
        let a_doc = make_doc(CLIENTS[(case.client % 4) as usize], case.utf16);
        let a = Roots::declare(&a_doc);
        let letters = ["a", "b", "c", "d", "e", "f"];
        // 1. the source
        {
            let mut txn = a_doc.transact_mut();
            match kind {
                0 => a.text.insert(&mut txn, 0, &letters[..n].concat()),
                1 => a.arr.insert_range(&mut txn, 0, (0..n as i64).collect::<Vec<_>>()),
                2 => {
                    a.map.insert(&mut txn, "n", TextPrelim::new(letters[..n].concat()));
                }
                3 => {
                    a.map.insert(&mut txn, "n", ArrayPrelim::from((0..n as i64).collect::<Vec<_>>()));
                }
                4 => {
                    a.xml.insert(&mut txn, 0, XmlTextPrelim::new(letters[..n].concat()));
                }
                5 => {
                    a.map.insert(&mut txn, "k", 1i64);
                }
                _ => {
                    a.map.insert(&mut txn, "n", MapPrelim::from([("k".to_string(), yrs::Any::from(1i64))]));
                }
            }
        }
        // 2. the quotation
        let made = {
            let mut txn = a_doc.transact_mut();
            let src = match source(&txn, &a, kind) {
                Some(s) => s,
                None => fail!("c09/links/harness", "source of kind {} not found in its own document", kind),
            };
            let ia = pick(case.a, n);
            let mut ib = ia + pick(case.b, n - ia);
            let (sk, ek) = (case.sk % 3, case.ek % 3);
            let exclusive = (sk == 1) as usize + (ek == 1) as usize;
            if sk != 2 && ek != 2 && ib < ia + exclusive {
                ib = (ia + exclusive).min(n - 1);
            }
            let well_formed = sk == 2 || ek == 2 || ib >= ia + exclusive;
            let start = match sk {
                0 => Bound::Included(ia as u32),
                1 => Bound::Excluded(ia as u32),
                _ => Bound::Unbounded,
            };
            let end = match ek {
                0 => Bound::Included(ib as u32),
                1 => Bound::Excluded(ib as u32),
                _ => Bound::Unbounded,
            };
            if !well_formed {
                false
            } else {
                match src {
                    Src::Text(t) => match t.quote(&txn, (start, end)) {
                        Ok(p) => {
                            a.map.insert(&mut txn, "q", p);
                            true
                        }
                        Err(_) => false,
                    },
                    Src::Xml(t) => match t.quote(&txn, (start, end)) {
                        Ok(p) => {
                            a.map.insert(&mut txn, "q", p);
                            true
                        }
                        Err(_) => false,
                    },
                    Src::Arr(x) => match x.quote(&txn, (start, end)) {
                        Ok(p) => {
                            a.map.insert(&mut txn, "q", p);
                            true
                        }
                        Err(_) => false,
                    },
                    Src::Entry(m) => match m.link(&txn, "k") {
                        Some(p) => {
                            a.map.insert(&mut txn, "q", p);
                            true
                        }
                        None => false,
                    },
                }
            }
        };
        if !made {
            st.hit("no_quotation_made");
            return Ok(());
        }
        st.nt();
        st.hit(["root_text", "root_array", "nested_text", "nested_array", "xml_text", "root_map_entry", "nested_map_entry"][kind as usize]);
        if kind < 5 && (case.sk % 3 == 2 || case.ek % 3 == 2) {
            st.hit("unbounded_end");
        }
        // 3. over the wire: as encoded, and transcribed into the other version
        let full = {
            let txn = a_doc.transact();
            if case.v2 {
                txn.encode_state_as_update_v2(&StateVector::default())
            } else {
                txn.encode_state_as_update_v1(&StateVector::default())
            }
        };
        let decoded = match if case.v2 { Update::decode_v2(&full) } else { Update::decode_v1(&full) } {
            Ok(u) => u,
            Err(e) => fail!("c09/links/undecodable", "the full state (v2={}) does not decode: {}", case.v2, e),
        };
        let again = if case.v2 { decoded.encode_v2() } else { decoded.encode_v1() };
        ensure!(again == full, "c09/links/fixpoint", "re-encoding the decoded full state (v2={}) gives other bytes", case.v2);
        let cross = if case.v2 { decoded.encode_v1() } else { decoded.encode_v2() };
        let b_doc = make_doc(77, case.utf16);
        let b = Roots::declare(&b_doc);
        let c_doc = make_doc_gc(78, case.utf16, true);
        let c = Roots::declare(&c_doc);
        let apply = |doc: &Doc, bytes: &[u8], v2: bool, what: &str| -> Result<(), Fail> {
            let u = match if v2 { Update::decode_v2(bytes) } else { Update::decode_v1(bytes) } {
                Ok(u) => u,
                Err(e) => fail!("c09/links/undecodable", "{} (v2={}) does not decode: {}", what, v2, e),
            };
            if let Err(e) = doc.transact_mut().apply_update(u) {
                fail!("c09/links/apply-failed", "{} (v2={}): {}", what, v2, e);
            }
            Ok(())
        };
        apply(&b_doc, &full, case.v2, "full state")?;
        apply(&c_doc, &cross, !case.v2, "transcribed full state")?;
        let compare = |when: &str| -> Result<(), Fail> {
            let (ta, tb, tc) = (a_doc.transact(), b_doc.transact(), c_doc.transact());
            let va = view(&ta, &a, kind);
            let vb = view(&tb, &b, kind);
            let vc = view(&tc, &c, kind);
            ensure!(va.0.is_some(), "c09/links/harness", "{}: the sender does not hold its quotation", when);
            ensure!(va == vb, "c09/links/quotation-differs", "{}: the sender reads its quotation as {:?}, the receiver of the update (v2={}) as {:?}", when, va, case.v2, vb);
            ensure!(va == vc, "c09/links/quotation-differs-transcribed", "{}: the sender reads its quotation as {:?}, the receiver of the transcribed update (v2={}) as {:?}", when, va, !case.v2, vc);
            let (da, db, dc) = (dump_doc(&ta, &a), dump_doc(&tb, &b), dump_doc(&tc, &c));
            if da != db {
                fail!("c09/links/content-differs", "{}: {}", when, first_diff(&da, &db).unwrap_or_default());
            }
            if da != dc {
                fail!("c09/links/content-differs-transcribed", "{}: {}", when, first_diff(&da, &dc).unwrap_or_default());
            }
            Ok(())
        };
        compare("after the transfer")?;
        // 4. edits at the edges of the source, shipped as diffs
        for (pi, (wh, what)) in case.probes.iter().enumerate() {
            let before = a_doc.transact().state_vector();
            {
                let mut txn = a_doc.transact_mut();
                let Some(src) = source(&txn, &a, kind) else { break };
                let fresh = ["u", "v", "w", "x"][(*what % 4) as usize];
                match src {
                    Src::Text(t) => {
                        let len = t.get_string(&txn).chars().count() as u32;
                        match wh % 5 {
                            0 => t.insert(&mut txn, 0, fresh),
                            1 => t.insert(&mut txn, len, fresh),
                            2 => t.insert(&mut txn, len / 2, fresh),
                            3 if len > 0 => t.remove_range(&mut txn, 0, 1),
                            4 if len > 0 => t.remove_range(&mut txn, len - 1, 1),
                            _ => {}
                        }
                    }
                    Src::Xml(t) => {
                        let len = t.get_string(&txn).chars().count() as u32;
                        match wh % 5 {
                            0 => t.insert(&mut txn, 0, fresh),
                            1 => t.insert(&mut txn, len, fresh),
                            2 => t.insert(&mut txn, len / 2, fresh),
                            3 if len > 0 => t.remove_range(&mut txn, 0, 1),
                            4 if len > 0 => t.remove_range(&mut txn, len - 1, 1),
                            _ => {}
                        }
                    }
                    Src::Arr(x) => {
                        let len = x.len(&txn);
                        let v = 100 + pi as i64 * 10 + (*what % 4) as i64;
                        match wh % 5 {
                            0 => {
                                x.insert(&mut txn, 0, v);
                            }
                            1 => {
                                x.insert(&mut txn, len, v);
                            }
                            2 => {
                                x.insert(&mut txn, len / 2, v);
                            }
                            3 if len > 0 => x.remove(&mut txn, 0),
                            4 if len > 0 => x.remove(&mut txn, len - 1),
                            _ => {}
                        }
                    }
                    Src::Entry(m) => match wh % 5 {
                        0 | 1 | 2 => {
                            m.insert(&mut txn, "k", 100 + pi as i64);
                        }
                        3 => {
                            m.remove(&mut txn, "k");
                        }
                        _ => {
                            m.insert(&mut txn, "other", pi as i64);
                        }
                    },
                }
            }
            let (d1, d2) = {
                let txn = a_doc.transact();
                (txn.encode_state_as_update_v1(&before), txn.encode_state_as_update_v2(&before))
            };
            if pi % 2 == 0 {
                apply(&b_doc, &d1, false, "diff")?;
                apply(&c_doc, &d2, true, "diff")?;
            } else {
                apply(&b_doc, &d2, true, "diff")?;
                apply(&c_doc, &d1, false, "diff")?;
            }
            st.hit("edits_after_transfer");
            compare(&format!("after edit {} {:?} of the source", pi, (wh % 5, what % 4)))?;
        }
        Ok(())
    }
}
