//! C05 — map entries (and XML attributes) are causal last-writer-wins registers.
//!
//! Authors receive updates only in causal order (so "had seen" is well defined by the harness'
//! bookkeeping); passive observers receive arbitrary schedules and are checked at causally closed
//! gap-free points.  One operation per transaction; every written value is unique.

use crate::dump::*;
use crate::engine::*;
use crate::interp::*;
use crate::ops::*;
use crate::props::c01::{exec_delivery, plan, sched_strategy, Sched};
use crate::world::*;
use crate::{ensure, fail};
use proptest::prelude::*;
use serde::{Deserialize, Serialize};
use std::collections::{BTreeMap, BTreeSet};
use yrs::{Any, Map, Out, ReadTxn, Transact, Xml, XmlFragment, XmlOut};

#[derive(Clone, Debug, Serialize, Deserialize)]
pub enum MStep {
    /// container: 0 root map, 1 nested map under root key "nest", 2 attributes of the XML element
    Set { r: u8, c: u8, key: u8, nested: bool },
    Remove { r: u8, c: u8, key: u8 },
    Clear { r: u8, c: u8 },
    /// write into the nested map that the key currently shows on this replica (if it shows one):
    /// content that arrives in a subtree which another replica removes or overwrites concurrently
    Inner { r: u8, c: u8, key: u8 },
    /// deliver a causally ready update
    Deliver { to: u8, which: u16, v2: bool },
    /// bring `to` up to date with everything `from` has (causal order)
    Sync { from: u8, to: u8 },
}

#[derive(Clone, Debug, Serialize, Deserialize)]
pub struct Case {
    pub cfgs: Vec<Cfg>,
    pub steps: Vec<MStep>,
    pub sched: Sched,
    pub observer: Cfg,
}

pub struct Lww;

#[derive(Clone, Debug)]
struct KOp {
    update: usize,
    /// Some(value tag) = write, None = removal
    value: Option<String>,
}

/// (container, key) -> visible value tag
type View = BTreeMap<(u8, String), String>;

fn tag_of<T: yrs::ReadTxn>(txn: &T, o: &Out) -> String {
    match o {
        Out::Any(Any::Number(n)) => format!("n{}", n),
        Out::Any(Any::String(s)) => format!("s{}", s),
        Out::YMap(m) => {
            // nested maps carry a unique marker under "id"
            match m.get(txn, "id") {
                Some(Out::Any(Any::Number(n))) => format!("m{}", n),
                _ => "m?".to_string(),
            }
        }
        other => format!("?{}", other),
    }
}

fn view(r: &Replica) -> View {
    let txn = r.doc.transact();
    let mut v = View::new();
    for (k, o) in r.roots.map.iter(&txn) {
        if k != "nest" {
            v.insert((0, k.to_string()), tag_of(&txn, &o));
        }
    }
    if let Some(Out::YMap(nest)) = r.roots.map.get(&txn, "nest") {
        for (k, o) in nest.iter(&txn) {
            v.insert((1, k.to_string()), tag_of(&txn, &o));
        }
    }
    if let Some(XmlOut::Element(e)) = r.roots.xml.get(&txn, 0) {
        for (k, o) in e.attributes(&txn) {
            v.insert((2, k.to_string()), tag_of(&txn, &o));
        }
    }
    v
}

/// all unique number markers reachable anywhere in the dump
fn all_numbers(n: &Node, acc: &mut BTreeSet<String>) {
    match n {
        Node::Any(crate::val::AnyV::Num(bits)) => {
            acc.insert(format!("{}", f64::from_bits(*bits)));
        }
        Node::Map(m) => m.values().for_each(|x| all_numbers(x, acc)),
        Node::Array(v) | Node::XmlFragment(v) => v.iter().for_each(|x| all_numbers(x, acc)),
        Node::XmlElement { attrs, children, .. } => {
            attrs.values().for_each(|x| all_numbers(x, acc));
            children.iter().for_each(|x| all_numbers(x, acc));
        }
        _ => {}
    }
}

struct Truth {
    /// (container,key) -> operations
    ops: BTreeMap<(u8, String), Vec<KOp>>,
    /// nested map marker -> the numbers stored inside of it
    inner: BTreeMap<String, Vec<String>>,
}

impl Truth {
    fn check(&self, w: &World, rep: &Replica, who: &str, when: &str, st: &mut CaseStats) -> Result<(), Fail> {
        let v = view(rep);
        let follows = |a: &KOp, b: &KOp| -> bool { a.update != b.update && w.updates[a.update].deps.contains(&b.update) };
        let mut keys: BTreeSet<(u8, String)> = self.ops.keys().cloned().collect();
        keys.extend(v.keys().cloned());
        let dump = rep.dump();
        let mut numbers = BTreeSet::new();
        all_numbers(&dump, &mut numbers);
        for key in keys {
            let empty = Vec::new();
            let s: Vec<&KOp> = self.ops.get(&key).unwrap_or(&empty).iter().filter(|o| rep.received.contains(&o.update)).collect();
            let maximal: Vec<&&KOp> = s.iter().filter(|o| !s.iter().any(|p| follows(p, o))).collect();
            let visible = v.get(&key);
            match visible {
                Some(val) => {
                    // O1: the value of a write that nothing received follows
                    let src = s.iter().find(|o| o.value.as_ref() == Some(val));
                    match src {
                        None => fail!("c05/unknown-value", "{} {}: key {:?} shows {} which no received write produced", who, when, key, val),
                        Some(o) => ensure!(
                            maximal.iter().any(|m| m.update == o.update),
                            "c05/resurfaced-value",
                            "{} {}: key {:?} shows {} (update {}), but the replica has received an operation on that key that had seen it",
                            who,
                            when,
                            key,
                            val,
                            o.update
                        ),
                    }
                }
                None => {
                    // O2: absent only if no write, or a maximal removal exists
                    let has_write = s.iter().any(|o| o.value.is_some());
                    if has_write {
                        ensure!(
                            maximal.iter().any(|m| m.value.is_none()),
                            "c05/lost-write",
                            "{} {}: key {:?} is absent although writes were received and every received removal has been followed by a write",
                            who,
                            when,
                            key
                        );
                        st.hit("absent_although_writes_exist");
                    }
                }
            }
            // O3a: all maximal ops are writes => present
            if !maximal.is_empty() && maximal.iter().all(|m| m.value.is_some()) {
                ensure!(visible.is_some(), "c05/lost-write", "{} {}: key {:?}: every maximal received operation is a write but the key is absent", who, when, key);
            }
            // O3b: a write that follows every other write and is followed by no removal wins
            for o in s.iter().filter(|o| o.value.is_some()) {
                let dominates = s.iter().filter(|p| p.value.is_some() && p.update != o.update).all(|p| follows(o, p));
                let removed_after = s.iter().any(|p| p.value.is_none() && follows(p, o));
                if dominates && !removed_after {
                    ensure!(
                        visible == o.value.as_ref(),
                        "c05/write-did-not-survive",
                        "{} {}: key {:?}: write {} (update {}) follows every other received write and no received removal had seen it, but the key shows {:?}",
                        who,
                        when,
                        key,
                        o.value.as_ref().unwrap(),
                        o.update,
                        visible
                    );
                    if s.iter().any(|p| p.value.is_none() && !follows(o, p) && !follows(p, o)) {
                        st.hit("write_survives_concurrent_removal");
                        st.nt();
                    }
                }
            }
            // O4: the subtree of an overwritten / removed nested map is unreachable
            for o in s.iter() {
                if let Some(tag) = &o.value {
                    if tag.starts_with('m') && visible != Some(tag) && s.iter().any(|p| follows(p, o)) {
                        for num in self.inner.get(tag).into_iter().flatten() {
                            ensure!(
                                !numbers.contains(num),
                                "c05/subtree-survived",
                                "{} {}: nested map {} under {:?} was overwritten/removed by a received operation but its content {} is still reachable",
                                who,
                                when,
                                tag,
                                key,
                                num
                            );
                        }
                        st.hit("nested_subtree_removed");
                    }
                }
            }
            if maximal.len() >= 2 {
                st.hit("keys_with_concurrent_maximal_ops");
                if maximal.iter().any(|m| m.value.is_none()) {
                    st.nt();
                }
            }
        }
        Ok(())
    }
}

fn mstep_strategy(n: u8) -> BoxedStrategy<MStep> {
    prop_oneof![
        8 => (0..n, 0u8..3, 0u8..3, prop::bool::weighted(0.2)).prop_map(|(r, c, key, nested)| MStep::Set { r, c, key, nested }),
        4 => (0..n, 0u8..3, 0u8..3).prop_map(|(r, c, key)| MStep::Remove { r, c, key }),
        1 => (0..n, 0u8..2).prop_map(|(r, c)| MStep::Clear { r, c }),
        2 => (0..n, 0u8..2, 0u8..3).prop_map(|(r, c, key)| MStep::Inner { r, c, key }),
        6 => (0..n, any::<u16>(), any::<bool>()).prop_map(|(to, which, v2)| MStep::Deliver { to, which, v2 }),
        1 => (0..n, 0..n).prop_map(|(from, to)| MStep::Sync { from, to }),
    ]
    .boxed()
}

impl Prop for Lww {
    type Case = Case;
    fn name(&self) -> &'static str {
        "lww"
    }
    fn cases(&self, tier: Tier) -> u64 {
        tier.pick(750_000, 4_000_000)
    }
    fn strategy(&self, tier: Tier) -> BoxedStrategy<Case> {
        let max_steps = tier.pick(26, 44);
        cfgs_strategy(2..=tier.pick(3, 4), false)
            .prop_flat_map(move |cfgs| {
                let n = cfgs.len() as u8;
                // a group is one step, or a burst: the same replica writes the same key several times in a
                // row (adjacent clocks: the overwritten entries squash into one tombstone block that a
                // concurrent write of another replica has to split again) and maybe removes it
                let group = prop_oneof![
                    8 => mstep_strategy(n).prop_map(|s| vec![s]),
                    2 => (0..n, 0u8..3, 0u8..3, 2usize..5, any::<bool>()).prop_map(|(r, c, key, k, remove)| {
                        let mut v: Vec<MStep> = (0..k).map(|_| MStep::Set { r, c, key, nested: false }).collect();
                        if remove {
                            v.push(MStep::Remove { r, c, key });
                        }
                        v
                    }),
                ];
                (Just(cfgs), prop::collection::vec(group, 4..=max_steps), sched_strategy(), cfgs_strategy(1..=1, false))
            })
            .prop_map(move |(cfgs, groups, sched, mut obs)| {
                obs[0].client = 7000;
                let mut steps: Vec<MStep> = groups.into_iter().flatten().collect();
                steps.truncate(max_steps + 8);
                Case { cfgs, steps, sched, observer: obs.remove(0) }
            })
            .boxed()
    }

    fn check(&self, case: &Case, st: &mut CaseStats) -> Result<(), Fail> {
        let mut w = World::new(&case.cfgs);
        let n = w.reps.len();
        // setup: nested map and XML element, known to everybody
        {
            let setup = vec![
                Op::MapSet { m: 0, key: 0, v: Val::Nested(Nest::Map(vec![])) },
                Op::XmlInsert { x: 0, pos: 0, node: XmlNode::Elem(0) },
            ];
            // the nested map lives under the dedicated key "nest"
            let rep = &w.reps[0];
            {
                let mut txn = rep.doc.transact_mut();
                rep.roots.map.insert(&mut txn, "nest", yrs::MapPrelim::default());
                rep.roots.xml.insert(&mut txn, 0, yrs::XmlElementPrelim::empty("el"));
            }
            let _ = setup;
            w.register_local(0, vec![]);
            for r in 1..n {
                if let Err(e) = w.deliver(r, 0, false) {
                    fail!("c05/transport/apply-failed", "setup: {}", e);
                }
            }
        }
        let mut truth = Truth { ops: BTreeMap::new(), inner: BTreeMap::new() };
        // nested maps held by reference on replicas that never free them (skip_gc)
        let mut held: Vec<(usize, yrs::MapRef, String)> = Vec::new();
        let keyname = |c: u8, k: u8| -> String {
            if c == 2 {
                XML_ATTR_KEYS[k as usize % 3].to_string()
            } else {
                MAP_KEYS[k as usize % 3].to_string()
            }
        };
        for (si, step) in case.steps.iter().enumerate() {
            let when = format!("after step {} {:?}", si, step);
            match step {
                MStep::Set { r, c, key, nested } => {
                    let r = *r as usize % n;
                    let c = *c % 3;
                    let k = keyname(c, *key);
                    let id = w.alloc.int();
                    let mut inner_vals = Vec::new();
                    let before = view(&w.reps[r]);
                    {
                        let rep = &w.reps[r];
                        let mut txn = rep.doc.transact_mut();
                        let nested = *nested && c != 2;
                        match c {
                            0 | 1 => {
                                let target = if c == 0 {
                                    Some(rep.roots.map.clone())
                                } else {
                                    match rep.roots.map.get(&txn, "nest") {
                                        Some(Out::YMap(m)) => Some(m),
                                        _ => None,
                                    }
                                };
                                if let Some(m) = target {
                                    if nested {
                                        let a = w.alloc.int();
                                        inner_vals.push(format!("{}", a as f64));
                                        m.insert(&mut txn, k.clone(), yrs::MapPrelim::from([("id", id as f64), ("payload", a as f64)]));
                                    } else {
                                        m.insert(&mut txn, k.clone(), id as f64);
                                    }
                                }
                            }
                            _ => {
                                if let Some(XmlOut::Element(e)) = rep.roots.xml.get(&txn, 0) {
                                    e.insert_attribute(&mut txn, k.clone(), Any::Number(id as f64));
                                }
                            }
                        }
                    }
                    if let Some(u) = w.register_local(r, vec![]) {
                        let after = view(&w.reps[r]);
                        if let Some(val) = after.get(&(c, k.clone())) {
                            if before.get(&(c, k.clone())) != Some(val) {
                                truth.ops.entry((c, k.clone())).or_default().push(KOp { update: u, value: Some(val.clone()) });
                                if val.starts_with('m') {
                                    truth.inner.insert(val.clone(), inner_vals);
                                }
                            }
                        }
                    }
                    truth.check(&w, &w.reps[r], &format!("author {}", r), &when, st)?;
                }
                MStep::Inner { r, c, key } => {
                    let r = *r as usize % n;
                    let c = *c % 2;
                    let k = keyname(c, *key);
                    let num = w.alloc.int();
                    let mut wrote: Option<String> = None;
                    let mut created: Option<(String, Option<String>)> = None;
                    {
                        let rep = &w.reps[r];
                        let mut txn = rep.doc.transact_mut();
                        let target = if c == 0 {
                            Some(rep.roots.map.clone())
                        } else {
                            match rep.roots.map.get(&txn, "nest") {
                                Some(Out::YMap(m)) => Some(m),
                                _ => None,
                            }
                        };
                        let target_map = target.clone();
                        if let Some(Out::YMap(inner)) = target.and_then(|m| m.get(&txn, &k)) {
                            let tag = tag_of(&txn, &Out::YMap(inner.clone()));
                            inner.insert(&mut txn, format!("extra{}", num), num as f64);
                            if rep.cfg.skip_gc {
                                held.push((r, inner.clone(), tag.clone()));
                            }
                            wrote = Some(tag);
                        } else if let Some(m) = target_map {
                            // no nested map there (never written, removed, or a plain value):
                            // get_or_init stores a fresh one - a write on the key like any other
                            let fresh: yrs::MapRef = m.get_or_init(&mut txn, k.clone());
                            fresh.insert(&mut txn, "id", num as f64);
                            created = Some((format!("m{}", num as f64), None));
                        }
                    }
                    let registered = w.register_local(r, vec![]);
                    if let Some((tag, _)) = &created {
                        let after = view(&w.reps[r]);
                        ensure!(
                            after.get(&(c, k.clone())) == Some(tag),
                            "c05/get-or-init-not-stored",
                            "{}: get_or_init on a key without a nested map must store a fresh one, but the key shows {:?}",
                            when,
                            after.get(&(c, k.clone()))
                        );
                        if let Some(u) = registered {
                            truth.ops.entry((c, k.clone())).or_default().push(KOp { update: u, value: Some(tag.clone()) });
                            truth.inner.insert(tag.clone(), vec![]);
                            st.hit("nested_maps_created_by_get_or_init");
                        }
                    }
                    if registered.is_some() {
                        if let Some(tag) = wrote {
                            truth.inner.entry(tag).or_default().push(format!("{}", num as f64));
                            st.hit("writes_into_nested_maps");
                        }
                    }
                    truth.check(&w, &w.reps[r], &format!("author {}", r), &when, st)?;
                }
                MStep::Remove { r, c, key } => {
                    let r = *r as usize % n;
                    let c = *c % 3;
                    let k = keyname(c, *key);
                    let before = view(&w.reps[r]);
                    {
                        let rep = &w.reps[r];
                        let mut txn = rep.doc.transact_mut();
                        match c {
                            0 => {
                                rep.roots.map.remove(&mut txn, &k);
                            }
                            1 => {
                                if let Some(Out::YMap(m)) = rep.roots.map.get(&txn, "nest") {
                                    m.remove(&mut txn, &k);
                                }
                            }
                            _ => {
                                if let Some(XmlOut::Element(e)) = rep.roots.xml.get(&txn, 0) {
                                    e.remove_attribute(&mut txn, &k);
                                }
                            }
                        }
                    }
                    if let Some(u) = w.register_local(r, vec![]) {
                        if before.contains_key(&(c, k.clone())) {
                            truth.ops.entry((c, k.clone())).or_default().push(KOp { update: u, value: None });
                        }
                    }
                    truth.check(&w, &w.reps[r], &format!("author {}", r), &when, st)?;
                }
                MStep::Clear { r, c } => {
                    let r = *r as usize % n;
                    let c = *c % 2;
                    let before = view(&w.reps[r]);
                    {
                        let rep = &w.reps[r];
                        let mut txn = rep.doc.transact_mut();
                        if c == 1 {
                            if let Some(Out::YMap(m)) = rep.roots.map.get(&txn, "nest") {
                                m.clear(&mut txn);
                            }
                        } else {
                            // clearing the root map would also drop the nested map "nest": remove key by key instead
                            for k in MAP_KEYS.iter().take(3) {
                                rep.roots.map.remove(&mut txn, k);
                            }
                        }
                    }
                    if let Some(u) = w.register_local(r, vec![]) {
                        for ((cc, k), _) in before.iter() {
                            if *cc == c {
                                truth.ops.entry((c, k.clone())).or_default().push(KOp { update: u, value: None });
                            }
                        }
                    }
                    truth.check(&w, &w.reps[r], &format!("author {}", r), &when, st)?;
                }
                MStep::Deliver { to, which, v2 } => {
                    let to = *to as usize % n;
                    let ready: Vec<usize> = w.missing(to).into_iter().filter(|i| w.updates[*i].deps.is_subset(&w.reps[to].received)).collect();
                    if !ready.is_empty() {
                        let idx = ready[pick(*which, ready.len())];
                        if let Err(e) = w.deliver(to, idx, *v2) {
                            fail!("c05/transport/apply-failed", "{}: {}", when, e);
                        }
                        ensure!(!w.reps[to].has_missing(), "c05/causal-delivery-stashed", "{}: a causally ready update was stashed", when);
                        truth.check(&w, &w.reps[to], &format!("author {}", to), &when, st)?;
                    }
                }
                MStep::Sync { from, to } => {
                    let (from, to) = (*from as usize % n, *to as usize % n);
                    if from != to {
                        if let Err(e) = w.sync(from, to, si % 2 == 0) {
                            fail!("c05/transport/apply-failed", "{}: {}", when, e);
                        }
                        truth.check(&w, &w.reps[to], &format!("author {}", to), &when, st)?;
                    }
                }
            }
        }
        // passive observer with an arbitrary schedule, checked at causally closed gap-free points
        let obs_idx = w.reps.len();
        let all: Vec<usize> = (0..w.updates.len()).collect();
        let p = plan(&case.sched, &all);
        w.reps.push(Replica::new(case.observer.clone()));
        for (di, d) in p.iter().enumerate() {
            {
                let obs = &w.reps[obs_idx];
                exec_delivery(&w, obs, d).map_err(|f| Fail::new(f.sig.replace("c01/", "c05/"), f.msg))?;
            }
            let idxs = d.idxs.clone();
            w.reps[obs_idx].received.extend(idxs);
            let closed = w.reps[obs_idx].gap_free() && w.causally_closed(&w.reps[obs_idx].received);
            if closed {
                st.hit("observer_closed_points");
                truth.check(&w, &w.reps[obs_idx], "observer", &format!("after delivery {} {:?}", di, d.idxs), st)?;
            }
        }
        // quiescence: everybody agrees
        for r in 0..n {
            for i in w.missing(r) {
                if let Err(e) = w.deliver(r, i, false) {
                    fail!("c05/transport/apply-failed", "final flush: {}", e);
                }
            }
        }
        let v0 = view(&w.reps[0]);
        for r in 1..w.reps.len() {
            let vr = view(&w.reps[r]);
            ensure!(vr == v0, "c05/quiescent-disagreement", "after everything was delivered replica {} shows {:?} but replica 0 shows {:?}", r, vr, v0);
        }
        // "removes its whole subtree", also for content that arrived in the subtree after (or
        // concurrently with) the removal: everybody has deleted the same ids, and a nested map that
        // is gone shows no entry to whoever still holds a reference to it
        let ds0 = w.reps[0].doc.transact().snapshot().delete_set;
        for r in 1..w.reps.len() {
            let dsr = w.reps[r].doc.transact().snapshot().delete_set;
            ensure!(
                dsr == ds0,
                "c05/subtree-survived/deleted-ids-differ",
                "after everything was delivered replica {} has deleted {:?} but replica 0 has deleted {:?}: some entry of a removed or overwritten subtree is alive on one of them",
                r,
                dsr,
                ds0
            );
        }
        for (r, m, tag) in held.iter() {
            let rep = &w.reps[*r];
            let txn = rep.doc.transact();
            let still_there = view(rep).values().any(|t| t == tag);
            if !still_there {
                let alive: Vec<String> = m.iter(&txn).map(|(k, _)| k.to_string()).collect();
                ensure!(alive.is_empty(), "c05/subtree-survived", "replica {}: nested map {} has been removed or overwritten, but a reference to it still shows the entries {:?}", r, tag, alive);
                st.hit("held_references_to_removed_nested_maps");
            }
        }
        Ok(())
    }
}

pub fn property() -> Property {
    Property {
        id: "C05",
        level: "exploration",
        rule: "2..3/4 author replicas performing 4..26/44 single-operation transactions: set(unique number or nested map with unique marker) / remove / clear on 3 keys, get_or_init of a nested map on a key that shows none (must store a fresh one: a write like any other), and writes INTO the nested map a key currently shows (content arriving in a subtree that another replica removes or overwrites concurrently), of a root map, of a nested map and of the attributes of an XML element, interleaved with causal deliveries and syncs (so the happened-before relation between operations is exactly the harness' received-set bookkeeping); after every step the touched author, and a passive observer with an arbitrary schedule at its causally closed gap-free points, are checked per key against rules O1-O4 (visible value comes from a maximal received write; absent only with no write or a maximal removal; all maximal writes => present; a write that follows all other writes and was not seen by a removal wins; subtree of an overwritten/removed nested map unreachable); at quiescence all replicas agree, all replicas have deleted the same ids (an entry of a removed subtree that stays alive on one of them shows here), and references to removed nested maps held on skip_gc replicas show no entries.  Non-trivial = a key has >=2 concurrent maximal operations one of which is a removal, or a write survived a concurrent removal; distinct = distinct generated case".into(),
        assumptions: vec![
            "removals that found nothing are not operations".into(),
            "which of several concurrent writes wins is not fixed by this oracle (convergence is C01); a write that lost to another concurrent write need not survive the removal of the winner (DESIGN section 7)".into(),
        ],
        parts: vec![Box::new(Part(Lww))],
    }
}
