//! C01 — strong eventual consistency: the outcome depends only on the set of updates, never on
//! the delivery schedule (order, duplication, merging in transit, diffing, v1/v2, GC/offset config).

use crate::dump::*;
use crate::engine::*;
use crate::ops::*;
use crate::world::*;
use crate::{ensure, fail};
use proptest::prelude::*;
use serde::{Deserialize, Serialize};
use std::collections::BTreeSet;
use yrs::updates::encoder::Encode;

#[derive(Clone, Debug, PartialEq, Serialize, Deserialize)]
pub struct Sched {
    /// sort keys defining the permutation (stable; all-equal keys = emission order)
    pub keys: Vec<u16>,
    /// per position: deliver this update a second time later
    pub dup: Vec<bool>,
    /// per position: size of the group merged in transit (1 = alone)
    pub group: Vec<u8>,
    /// per delivery: lib0 v2 instead of v1
    pub v2: Vec<bool>,
    /// per delivery: pass through diff_updates against the receiver's state vector first
    pub diff: Vec<bool>,
    /// per delivery: an update that was delivered earlier travels along in the same merged payload
    /// (so a payload mixes content the receiver knows with content it lacks)
    #[serde(default)]
    pub stale: Vec<bool>,
}

pub fn sched_strategy() -> BoxedStrategy<Sched> {
    (
        prop::collection::vec(any::<u16>(), 1..24),
        prop::collection::vec(prop::bool::weighted(0.2), 1..8),
        prop::collection::vec(prop_oneof![4 => Just(1u8), 1 => Just(2u8), 1 => Just(3u8)], 1..8),
        prop::collection::vec(any::<bool>(), 1..8),
        prop::collection::vec(prop::bool::weighted(0.2), 1..8),
        prop::collection::vec(prop::bool::weighted(0.25), 1..8),
    )
        .prop_map(|(keys, dup, group, v2, diff, stale)| Sched { keys, dup, group, v2, diff, stale })
        .boxed()
}

#[derive(Clone, Debug, Serialize, Deserialize)]
pub struct Case {
    pub history: History,
    /// one schedule per author for the final flush, then one per observer
    pub scheds: Vec<Sched>,
    pub observers: Vec<Cfg>,
}

/// a delivery plan over update indices
#[derive(Debug, Clone)]
pub struct Delivery {
    pub idxs: Vec<usize>,
    pub v2: bool,
    pub diff: bool,
}

pub fn plan(sched: &Sched, list: &[usize]) -> Vec<Delivery> {
    let m = list.len();
    let mut order: Vec<usize> = (0..m).collect();
    order.sort_by_key(|i| (sched.keys[*i % sched.keys.len()], *i));
    let mut out = Vec::new();
    let mut j = 0;
    let mut d = 0usize;
    let mut pending_dup: Option<usize> = None;
    while j < m {
        let g = (sched.group[d % sched.group.len()] as usize).clamp(1, 3).min(m - j);
        let mut idxs: Vec<usize> = order[j..j + g].iter().map(|i| list[*i]).collect();
        if !sched.stale.is_empty() && sched.stale[d % sched.stale.len()] && j > 0 {
            // one of the updates delivered before, chosen by the permutation key of this position
            let k = sched.keys[d % sched.keys.len()] as usize % j;
            let old = list[order[k]];
            if !idxs.contains(&old) {
                idxs.push(old);
            }
        }
        let v2 = sched.v2[d % sched.v2.len()];
        let diff = sched.diff[d % sched.diff.len()];
        out.push(Delivery { idxs: idxs.clone(), v2, diff });
        if let Some(p) = pending_dup.take() {
            out.push(Delivery { idxs: vec![p], v2: !v2, diff: false });
        }
        if sched.dup[d % sched.dup.len()] {
            pending_dup = Some(idxs[0]);
        }
        j += g;
        d += 1;
    }
    if let Some(p) = pending_dup {
        out.push(Delivery { idxs: vec![p], v2: false, diff: false });
    }
    out
}

pub fn exec_delivery(w: &World, to: &Replica, d: &Delivery) -> Result<(), Fail> {
    let mut bytes = if d.idxs.len() == 1 {
        if d.v2 {
            w.updates[d.idxs[0]].v2.clone()
        } else {
            w.updates[d.idxs[0]].v1.clone()
        }
    } else {
        match w.merged_bytes(&d.idxs, d.v2) {
            Ok(b) => b,
            Err(e) => fail!("c01/transport/merge-failed", "merging updates {:?}: {}", d.idxs, e),
        }
    };
    if d.diff {
        // the v2 function family takes the state vector in v2 encoding (alt.rs)
        let r = if d.v2 { yrs::diff_updates_v2(&bytes, &to.sv().encode_v2()) } else { yrs::diff_updates_v1(&bytes, &to.sv().encode_v1()) };
        match r {
            Ok(b) => bytes = b,
            Err(e) => fail!("c01/transport/diff-failed", "diff_updates of {:?}: {}", d.idxs, e),
        }
    }
    if let Err(e) = to.apply(&bytes, d.v2) {
        fail!("c01/transport/apply-failed", "applying {:?} (v2={}, diff={}): {}", d.idxs, d.v2, d.diff, e);
    }
    to.drain();
    Ok(())
}

fn is_causal(w: &World, already: &BTreeSet<usize>, plan: &[Delivery]) -> bool {
    let mut have = already.clone();
    for d in plan {
        for i in d.idxs.iter() {
            if !w.updates[*i].deps.iter().all(|x| have.contains(x) || d.idxs.contains(x)) {
                return false;
            }
        }
        have.extend(d.idxs.iter().copied());
    }
    true
}

fn check_final(w: &World, r: &Replica, who: &str, reference: &Node, join: &[(u64, u32)]) -> Result<(), Fail> {
    ensure!(
        !r.has_missing(),
        "c01/stuck-pending",
        "{} received every update but still reports missing updates (pending stash never integrated)",
        who
    );
    let sv = sv_to_vec(&r.sv());
    ensure!(sv == join, "c01/state-vector", "{}: state vector {:?} != join of authors {:?}", who, sv, join);
    let d = r.dump();
    if d != *reference {
        fail!(
            "c01/divergence",
            "{} differs from the reference replica (emission order, v1): {}",
            who,
            first_diff(&d, reference).unwrap_or_default()
        );
    }
    // sub-document references: what the document lists as its sub-documents is what its types
    // reference (a reference that was integrated and removed by one and the same transaction -
    // merged updates, full-state relays - must not stay listed)
    let mut referenced = std::collections::BTreeSet::new();
    doc_guids(&d, &mut referenced);
    let listed: std::collections::BTreeSet<String> = {
        use yrs::{ReadTxn, Transact};
        let txn = r.doc.transact();
        txn.subdoc_guids().map(|g| g.to_string()).collect()
    };
    ensure!(
        listed == referenced,
        "c01/subdocuments-listed",
        "{}: subdoc_guids() lists {:?} but the shared types reference the sub-documents {:?}",
        who,
        listed,
        referenced
    );
    Ok(())
}

fn doc_guids(n: &Node, acc: &mut std::collections::BTreeSet<String>) {
    match n {
        Node::Doc(g) => {
            acc.insert(g.clone());
        }
        Node::Map(m) => m.values().for_each(|x| doc_guids(x, acc)),
        Node::Array(v) | Node::XmlFragment(v) => v.iter().for_each(|x| doc_guids(x, acc)),
        Node::XmlElement { attrs, children, .. } => {
            attrs.values().for_each(|x| doc_guids(x, acc));
            children.iter().for_each(|x| doc_guids(x, acc));
        }
        Node::Text(units) | Node::XmlText { units, .. } => {
            for u in units.iter() {
                if let crate::dump::UnitV::Embed(e) = &u.v {
                    doc_guids(e, acc);
                }
            }
        }
        _ => {}
    }
}

pub struct Converge;

fn permutations(n: usize) -> Vec<Vec<usize>> {
    fn go(cur: &mut Vec<usize>, used: &mut Vec<bool>, n: usize, out: &mut Vec<Vec<usize>>) {
        if cur.len() == n {
            out.push(cur.clone());
            return;
        }
        for i in 0..n {
            if !used[i] {
                used[i] = true;
                cur.push(i);
                go(cur, used, n, out);
                cur.pop();
                used[i] = false;
            }
        }
    }
    let mut out = Vec::new();
    go(&mut Vec::new(), &mut vec![false; n], n, &mut out);
    out
}

impl Prop for Converge {
    type Case = Case;
    fn name(&self) -> &'static str {
        "converge"
    }
    fn cases(&self, tier: Tier) -> u64 {
        tier.pick(300_000, 3_000_000)
    }
    fn strategy(&self, tier: Tier) -> BoxedStrategy<Case> {
        let shape = HistoryShape::default_for(tier);
        (
            history_strategy(Profile::all(), shape, false),
            prop::collection::vec(sched_strategy(), 6),
            cfgs_strategy(2..=2, false),
        )
            .prop_map(|(history, scheds, mut observers)| {
                for (i, o) in observers.iter_mut().enumerate() {
                    o.client = 7000 + i as u64;
                }
                Case { history, scheds, observers }
            })
            .boxed()
    }

    fn check(&self, case: &Case, st: &mut CaseStats) -> Result<(), Fail> {
        let mut w = World::new(&case.history.cfgs);
        for (i, s) in case.history.steps.iter().enumerate() {
            match w.step(s) {
                Ok(StepInfo::Synced { clean: false }) => st.hit("sync_from_gapped_sender"),
                Ok(_) => {}
                Err(e) => fail!("c01/transport/apply-failed", "history step {} {:?}: {}", i, s, e),
            }
        }
        let n_up = w.updates.len();
        if n_up == 0 {
            return Ok(());
        }
        // classification of the history
        let mut concurrent = false;
        for i in 0..n_up {
            for j in (i + 1)..n_up {
                if w.updates[i].author != w.updates[j].author && !w.updates[j].deps.contains(&i) && !w.updates[i].deps.contains(&j) {
                    concurrent = true;
                }
            }
        }
        if concurrent {
            st.hit("concurrent_updates");
        }
        if case.history.cfgs.iter().any(|c| c.skip_gc) && case.history.cfgs.iter().any(|c| !c.skip_gc) {
            st.hit("gc_mixed");
        }
        if w.updates.iter().any(|u| u.ops.iter().any(|r| r.path.len() > 1)) {
            st.hit("nested_target");
        }

        // reference: cleanup-off replica applying U in emission order, v1
        let reference = Replica::new(Cfg { client: 9999, utf16: false, skip_gc: false, cleanup: false });
        for (i, u) in w.updates.iter().enumerate() {
            if let Err(e) = reference.apply_v1(&u.v1) {
                fail!("c01/transport/apply-failed", "reference replica, update {}: {}", i, e);
            }
        }
        let ref_dump = reference.dump();
        ensure!(!reference.has_missing(), "c01/stuck-pending", "reference replica (emission order) reports missing updates");

        // final flush to every author with its own schedule
        let mut non_causal = false;
        for r in 0..w.reps.len() {
            let miss = w.missing(r);
            let p = plan(&case.scheds[r % case.scheds.len()], &miss);
            if !is_causal(&w, &w.reps[r].received, &p) {
                non_causal = true;
                st.hit("author_flush_out_of_causal_order");
            }
            for d in p.iter() {
                if d.idxs.len() > 1 {
                    st.hit("merged_in_transit");
                }
                if d.diff {
                    st.hit("diffed_in_transit");
                }
                if d.v2 {
                    st.hit("v2_link");
                }
                exec_delivery(&w, &w.reps[r], d)?;
            }
        }
        let join = w.join_sv();
        for r in 0..w.reps.len() {
            check_final(&w, &w.reps[r], &format!("author {} (client {})", r, w.reps[r].cfg.client), &ref_dump, &join)?;
        }
        // passive observers
        let all: Vec<usize> = (0..n_up).collect();
        for (k, cfg) in case.observers.iter().enumerate() {
            let obs = Replica::new(cfg.clone());
            let p = plan(&case.scheds[(w.reps.len() + k) % case.scheds.len()], &all);
            if !is_causal(&w, &BTreeSet::new(), &p) {
                non_causal = true;
                st.hit("observer_out_of_causal_order");
            }
            if p.len() > all.len() {
                st.hit("duplicate_delivery");
            }
            for d in p.iter() {
                exec_delivery(&w, &obs, d)?;
            }
            check_final(&w, &obs, &format!("observer {} {:?}", k, cfg), &ref_dump, &join)?;
        }
        // every permutation for small update sets
        if n_up <= 5 && n_up >= 2 {
            st.hit("all_permutations");
            for perm in permutations(n_up) {
                let obs = Replica::new(Cfg { client: 8000, utf16: true, skip_gc: perm[0] % 2 == 0, cleanup: false });
                for (j, i) in perm.iter().enumerate() {
                    let v2 = (j + perm[0]) % 2 == 0;
                    if let Err(e) = obs.apply(if v2 { &w.updates[*i].v2 } else { &w.updates[*i].v1 }, v2) {
                        fail!("c01/transport/apply-failed", "permutation {:?}: {}", perm, e);
                    }
                }
                check_final(&w, &obs, &format!("observer with permutation {:?}", perm), &ref_dump, &join)?;
                non_causal = true;
            }
        }
        if concurrent && non_causal {
            st.nt();
        }
        Ok(())
    }
}

/// Replicas with automatic format clean-up (`cleanup_formatting`, on by default in
/// `Options::with_client_id` / `Doc::new`).  Such a replica deletes format marks while it applies
/// remote updates, so it is not passive and may differ from others until its deletions have
/// travelled too.  What must hold: (a) the clean-up never changes what the replica itself shows —
/// after every applied update it shows what a clean-up-free twin, rebuilt from its full state and
/// given the same update, shows; (b) once everybody has everything — including the deletions made
/// by clean-up, exchanged as full states — all replicas are equal.
pub struct CleanupPart;

#[derive(Clone, Debug, Serialize, Deserialize)]
pub struct CleanupCase {
    pub history: History,
    /// which replicas run WITHOUT clean-up
    pub off: Vec<bool>,
    pub sched: Sched,
}

impl Prop for CleanupPart {
    type Case = CleanupCase;
    fn name(&self) -> &'static str {
        "cleanup"
    }
    fn cases(&self, tier: Tier) -> u64 {
        tier.pick(180_000, 2_000_000)
    }
    fn strategy(&self, tier: Tier) -> BoxedStrategy<CleanupCase> {
        let shape = HistoryShape::default_for(tier);
        // formatted text is what clean-up is about
        let mut p = Profile::all();
        p.format *= 3;
        p.text *= 2;
        p.subdocs = false;
        (history_strategy(p, shape, true), prop::collection::vec(prop::bool::weighted(0.3), 4), sched_strategy())
            .prop_map(|(mut history, off, sched)| {
                for (c, o) in history.cfgs.iter_mut().zip(off.iter()) {
                    c.cleanup = !*o;
                }
                CleanupCase { history, off, sched }
            })
            .boxed()
    }

    fn check(&self, case: &CleanupCase, st: &mut CaseStats) -> Result<(), Fail> {
        let mut w = World::new(&case.history.cfgs);
        for r in w.reps.iter() {
            r.twin_check.set(true);
        }
        let twin = |w: &World, when: &str| -> Result<(), Fail> {
            for (i, r) in w.reps.iter().enumerate() {
                if let Some(d) = r.twin_fail.borrow().as_ref() {
                    fail!("c01/cleanup/changed-content", "{}: replica {} (automatic format clean-up) shows something else than a clean-up-free twin with the same state that applied the same update: {}", when, i, d);
                }
            }
            Ok(())
        };
        let mut formatted = false;
        for (i, s) in case.history.steps.iter().enumerate() {
            if let Err(e) = w.step(s) {
                fail!("c01/transport/apply-failed", "history step {} {:?}: {}", i, s, e);
            }
            twin(&w, &format!("after step {} {:?}", i, s))?;
        }
        if w.updates.iter().any(|u| u.ops.iter().any(|r| matches!(r.cop, crate::interp::COp::TextFormat { .. } | crate::interp::COp::TextInsert { attrs: Some(_), .. } | crate::interp::COp::TextEmbed { attrs: Some(_), .. } | crate::interp::COp::TextDelta { .. }))) {
            formatted = true;
            st.hit("formatted_history");
        }
        // everybody gets every registered update under the generated schedule
        for r in 0..w.reps.len() {
            let miss = w.missing(r);
            for d in plan(&case.sched, &miss).iter() {
                exec_delivery(&w, &w.reps[r], d)?;
                twin(&w, &format!("final flush of replica {}, delivery {:?}", r, d.idxs))?;
            }
        }
        // closure: full states until nobody changes any more
        let n = w.reps.len();
        let mut rounds = 0;
        loop {
            let before: Vec<Node> = w.reps.iter().map(|r| r.dump()).collect();
            let svs: Vec<Vec<(u64, u32)>> = w.reps.iter().map(|r| sv_to_vec(&r.sv())).collect();
            for from in 0..n {
                let state = { use yrs::{ReadTxn, Transact}; w.reps[from].doc.transact().encode_state_as_update_v1(&yrs::StateVector::default()) };
                for to in 0..n {
                    if to != from {
                        if let Err(e) = w.reps[to].apply(&state, false) {
                            fail!("c01/transport/apply-failed", "closure round {}: {} -> {}: {}", rounds, from, to, e);
                        }
                        twin(&w, &format!("closure round {}: full state of {} applied to {}", rounds, from, to))?;
                    }
                }
            }
            rounds += 1;
            let after: Vec<Node> = w.reps.iter().map(|r| r.dump()).collect();
            let svs2: Vec<Vec<(u64, u32)>> = w.reps.iter().map(|r| sv_to_vec(&r.sv())).collect();
            if before == after && svs == svs2 {
                break;
            }
            ensure!(rounds <= 6, "c01/cleanup/closure-does-not-settle", "replicas still change after {} rounds of full-state exchange", rounds);
        }
        let d0 = w.reps[0].dump();
        for r in 1..n {
            let d = w.reps[r].dump();
            if d != d0 {
                fail!("c01/cleanup/closure-diverges", "after {} rounds of full-state exchange replica {} differs from replica 0: {}", rounds, r, first_diff(&d, &d0).unwrap_or_default());
            }
            ensure!(!w.reps[r].has_missing(), "c01/stuck-pending", "replica {} reports missing updates after the closure", r);
        }
        if formatted && w.reps.iter().any(|r| r.cfg.cleanup) && w.updates.len() >= 3 {
            st.nt();
        }
        Ok(())
    }
}

pub fn property() -> Property {
    Property {
        id: "C01",
        level: "exploration",
        rule: "histories of 2..3 (thorough 4) author replicas with distinct generated client ids and generated GC/offset configuration, 4..24 (thorough 40) steps (local transactions of 1..3 ops of every kind on root and nested types; deliveries, duplicates, merges in transit, state-vector syncs in between), then every author and two passive observers receive all updates under their own generated schedule (permutation x duplication x merge groups x diff_updates x v1/v2 per delivery); for <=5 updates every permutation is tried.  Oracle: nothing pending, state vector = join, canonical dump equal to a reference replica that applied the updates in emission order.  At the end every replica must also list (subdoc_guids) exactly the sub-documents its shared types reference.  Non-trivial = >=2 updates of different authors are concurrent and at least one receiver's schedule is not a causal order; distinct = distinct generated case".into(),
        assumptions: vec![
            "all replicas of the strict clause run with cleanup_formatting=false (a replica with automatic clean-up makes changes of its own, see DESIGN section 7)".into(),
            "equality is the canonical dump through the public read API".into(),
        ],
        parts: vec![Box::new(Part(Converge)), Box::new(Part(CleanupPart))],
    }
}
