use crate::engine::Property;

pub mod c01;
pub mod c02;
pub mod c03;
pub mod c04;
pub mod c05;
pub mod c06;
pub mod c07;
pub mod c08;
pub mod c09;
pub mod c09b;
pub mod c09c;
pub mod c10;
pub mod c11;
pub mod c12;
pub mod c13;
pub mod c14;
pub mod c14b;
pub mod c15;
pub mod c16;
pub mod c17;
pub mod c18;
pub mod c19;
pub mod c20;

pub fn all_ids() -> Vec<&'static str> {
    vec!["C01", "C02", "C03", "C04", "C05", "C06", "C07", "C08", "C09", "C10", "C11", "C12", "C13", "C14", "C15", "C16", "C17", "C18", "C19", "C20"]
}

pub fn build(id: &str) -> Option<Property> {
    match id {
        "C01" => Some(c01::property()),
        "C02" => Some(c02::property()),
        "C03" => Some(c03::property()),
        "C04" => Some(c04::property()),
        "C05" => Some(c05::property()),
        "C06" => Some(c06::property()),
        "C07" => Some(c07::property()),
        "C08" => Some(c08::property()),
        "C09" => Some(c09::property()),
        "C10" => Some(c10::property()),
        "C11" => Some(c11::property()),
        "C12" => Some(c12::property()),
        "C13" => Some(c13::property()),
        "C14" => Some(c14::property()),
        "C15" => Some(c15::property()),
        "C16" => Some(c16::property()),
        "C17" => Some(c17::property()),
        "C18" => Some(c18::property()),
        "C19" => Some(c19::property()),
        "C20" => Some(c20::property()),
        _ => None,
    }
}
