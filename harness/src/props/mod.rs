use crate::engine::Property;

pub mod c16;

pub fn all_ids() -> Vec<&'static str> {
    vec!["C16"]
}

pub fn build(id: &str) -> Option<Property> {
    match id {
        "C16" => Some(c16::property()),
        _ => None,
    }
}
