use crate::engine::Property;

pub mod c01;
pub mod c03;
pub mod c16;

pub fn all_ids() -> Vec<&'static str> {
    vec!["C01", "C03", "C16"]
}

pub fn build(id: &str) -> Option<Property> {
    match id {
        "C01" => Some(c01::property()),
        "C03" => Some(c03::property()),
        "C16" => Some(c16::property()),
        _ => None,
    }
}
