//! C04 — sequence elements: exactly once, stable relative order, placed where inserted.
//!
//! Uniquely tagged elements (unique code points / integers / tag names) in a root text, a root
//! array and a root XML child list.  Ground truth: which update inserted / deleted an element is
//! read off the author's own visible sequence before and after its transaction; which updates a
//! replica has been given is the harness' bookkeeping.

use crate::engine::*;
use crate::ops::*;
use crate::world::*;
use crate::{ensure, fail};
use proptest::prelude::*;
use std::collections::{BTreeSet, HashMap};
use yrs::{Any, Array, GetString, Out, Transact, XmlFragment, XmlOut};

pub struct Seqs;

/// visible sequences of the three root collections as element keys
pub fn visible(r: &Replica) -> [Vec<String>; 3] {
    let txn = r.doc.transact();
    let text: Vec<String> = r.roots.text.get_string(&txn).chars().map(|c| format!("t:{}", c)).collect();
    let arr: Vec<String> = r
        .roots
        .arr
        .iter(&txn)
        .map(|o| match o {
            Out::Any(Any::Number(n)) => format!("a:{}", n),
            other => format!("a:?{}", other),
        })
        .collect();
    let xml: Vec<String> = r
        .roots
        .xml
        .children(&txn)
        .map(|c| match c {
            XmlOut::Element(e) => format!("x:{}", e.tag()),
            XmlOut::Text(_) => "x:?text".to_string(),
            XmlOut::Fragment(_) => "x:?fragment".to_string(),
        })
        .collect();
    [text, arr, xml]
}

#[derive(Default)]
struct Truth {
    /// element -> update that inserted it
    ins: HashMap<String, usize>,
    /// element -> updates that delete it
    del: HashMap<String, Vec<usize>>,
    /// fixed relative order: (x,y) -> true if x before y
    order: HashMap<(String, String), bool>,
}

impl Truth {
    fn check_state(&mut self, w: &World, r: usize, when: &str, st: &mut CaseStats) -> Result<(), Fail> {
        let rep = &w.reps[r];
        let seqs = visible(rep);
        let closed = rep.gap_free() && w.causally_closed(&rep.received);
        for seq in seqs.iter() {
            // exactly once
            let mut seen = BTreeSet::new();
            for e in seq.iter() {
                ensure!(seen.insert(e.clone()), "c04/duplicate", "{}: replica {} shows element {} twice: {:?}", when, r, e, seq);
                match self.ins.get(e) {
                    None => fail!("c04/unknown-element", "{}: replica {} shows element {} that nobody inserted: {:?}", when, r, e, seq),
                    Some(u) => ensure!(
                        rep.received.contains(u),
                        "c04/visible-without-insertion",
                        "{}: replica {} shows {} although it has not received the inserting update {}",
                        when,
                        r,
                        e,
                        u
                    ),
                }
                if let Some(ds) = self.del.get(e) {
                    if let Some(d) = ds.iter().find(|d| rep.received.contains(d)) {
                        fail!("c04/visible-after-deletion", "{}: replica {} shows {} although it has received its deletion (update {})", when, r, e, d);
                    }
                }
            }
            // stable relative order
            for i in 0..seq.len() {
                for j in (i + 1)..seq.len() {
                    let (x, y) = (&seq[i], &seq[j]);
                    let (key, val) = if x < y { ((x.clone(), y.clone()), true) } else { ((y.clone(), x.clone()), false) };
                    match self.order.get(&key) {
                        None => {
                            self.order.insert(key, val);
                        }
                        Some(prev) => {
                            if *prev != val {
                                fail!(
                                    "c04/order-flip",
                                    "{}: replica {} shows {} before {}, but an earlier state (of some replica) showed them the other way round: {:?}",
                                    when,
                                    r,
                                    x,
                                    y,
                                    seq
                                );
                            }
                        }
                    }
                }
            }
        }
        // completeness at closed points: received insertion, no received deletion => visible
        if closed {
            st.hit("closed_states_checked");
            let all: BTreeSet<&String> = seqs.iter().flat_map(|s| s.iter()).collect();
            for (e, u) in self.ins.iter() {
                if rep.received.contains(u) {
                    let deleted = self.del.get(e).map(|ds| ds.iter().any(|d| rep.received.contains(d))).unwrap_or(false);
                    if !deleted {
                        ensure!(
                            all.contains(e),
                            "c04/missing-element",
                            "{}: replica {} has received the insertion of {} (update {}) and no deletion of it, everything it received is integrated, but the element is not visible",
                            when,
                            r,
                            e,
                            u
                        );
                    }
                }
            }
        }
        Ok(())
    }
}

impl Prop for Seqs {
    type Case = History;
    fn name(&self) -> &'static str {
        "sequences"
    }
    fn cases(&self, tier: Tier) -> u64 {
        tier.pick(750_000, 4_000_000)
    }
    fn strategy(&self, tier: Tier) -> BoxedStrategy<History> {
        let mut shape = HistoryShape::default_for(tier);
        shape.steps = 4..=tier.pick(26, 44);
        shape.ops_per_txn = 2;
        let mut p = Profile::sequences_unique();
        // embeds (JSON values and shared types) are sequence elements of a text as well: they have no
        // identity of their own here, but the placement model counts and removes them
        p.embed = 1;
        p.embed_nested = true;
        p.nested = true;
        history_strategy(p, shape, false)
    }

    fn check(&self, case: &History, st: &mut CaseStats) -> Result<(), Fail> {
        let mut w = World::new(&case.cfgs);
        let n = w.reps.len();
        let mut truth = Truth::default();
        let mut concurrent_same_gap = false;
        for (i, s) in case.steps.iter().enumerate() {
            let when = format!("after step {} {:?}", i, s);
            match s {
                Step::Local { r, .. } => {
                    let r = *r as usize % n;
                    let before = visible(&w.reps[r]);
                    let mut model = w.reps[r].dump();
                    let info = match w.step(s) {
                        Ok(x) => x,
                        Err(e) => fail!("c04/transport/apply-failed", "{}: {}", when, e),
                    };
                    let after = visible(&w.reps[r]);
                    if let StepInfo::Local { update: Some(u), .. } = info {
                        // placed where inserted: the author's own view after the transaction is its
                        // view before it with the operations applied at the positions it asked for
                        // (a state reached through remote integration: tombstones, split blocks,
                        // concurrent neighbours)
                        for op in w.updates[u].ops.iter() {
                            if let Err(e) = crate::interp::apply_model(&mut model, op) {
                                fail!("c04/harness/model-navigation", "{}: {} for {:?}", when, e, op.cop);
                            }
                        }
                        let real = w.reps[r].dump();
                        if real != model {
                            fail!(
                                "c04/not-placed-where-asked",
                                "{}: the author's view after its own transaction is not its view before it with the operations applied at the requested positions: {}",
                                when,
                                crate::dump::first_diff(&real, &model).unwrap_or_default()
                            );
                        }
                        st.hit("local_transactions_checked_against_positions");
                        for k in 0..3 {
                            let b: BTreeSet<&String> = before[k].iter().collect();
                            let a: BTreeSet<&String> = after[k].iter().collect();
                            for e in after[k].iter() {
                                if !b.contains(e) {
                                    ensure!(truth.ins.insert(e.clone(), u).is_none(), "c04/duplicate", "{}: element {} inserted twice", when, e);
                                }
                            }
                            for e in before[k].iter() {
                                if !a.contains(e) {
                                    truth.del.entry(e.clone()).or_default().push(u);
                                }
                            }
                        }
                        // elements inserted and deleted inside of the same transaction never show up; fine.
                        // concurrency classification: another update not in this author's past touches the same collection
                        let deps = &w.updates[u].deps;
                        if (0..u).any(|j| !deps.contains(&j) && w.updates[j].author != r) {
                            concurrent_same_gap = true;
                        }
                    }
                    truth.check_state(&w, r, &when, st)?;
                }
                other => {
                    let to = match other {
                        Step::Deliver { to, .. } | Step::Dup { to, .. } | Step::Merge { to, .. } | Step::Sync { to, .. } => *to as usize % n,
                        _ => 0,
                    };
                    if let Err(e) = w.step(s) {
                        fail!("c04/transport/apply-failed", "{}: {}", when, e);
                    }
                    truth.check_state(&w, to, &when, st)?;
                }
            }
        }
        // final flush in emission order, then everything must be visible everywhere
        for r in 0..n {
            for i in w.missing(r) {
                if let Err(e) = w.deliver(r, i, i % 2 == 1) {
                    fail!("c04/transport/apply-failed", "final flush: {}", e);
                }
                truth.check_state(&w, r, &format!("final flush of update {} to replica {}", i, r), st)?;
            }
        }
        if concurrent_same_gap {
            st.nt();
            st.hit("histories_with_concurrent_edits");
        }
        Ok(())
    }
}

pub fn property() -> Property {
    Property {
        id: "C04",
        level: "exploration",
        rule: "multi-replica histories (2..3/4 replicas, 4..26/44 steps) of inserts (single and multi-element) and range deletions of uniquely tagged elements in a root text (unique code points of every UTF-8 width), a root array (unique numbers) and a root XML child list (unique tag names), with deliveries in any order, duplicates, merges and syncs.  After EVERY step on the touched replica: no element twice; visible => its insertion was received and no deletion of it was received; one global before(x,y) relation fixed at first co-visibility must hold in every later state of every replica (covers 'between its neighbours' and multi-element order); at causally closed gap-free points: received insertion and no received deletion => visible; after every local transaction the author's whole view equals its view before the transaction with the operations applied at the requested indices (sequential model, applied to states reached through remote integration: 'placed where inserted').  Non-trivial = some update was made concurrently with an update of another author; distinct = distinct generated history".into(),
        assumptions: vec![
            "which update inserted/deleted an element is read from the author's own visible sequence before and after its transaction".into(),
            "undo/redo is excluded here (a redone element is a new insertion by the statement itself)".into(),
        ],
        parts: vec![Box::new(Part(Seqs))],
    }
}
