//! C13 — a snapshot restores the document exactly as it was.

use crate::dump::*;
use crate::engine::*;
use crate::ops::*;
use crate::world::*;
use crate::{ensure, fail};
use proptest::prelude::*;
use serde::{Deserialize, Serialize};
use yrs::updates::decoder::Decode;
use yrs::updates::encoder::{Encode, Encoder, EncoderV1, EncoderV2};
use yrs::{ReadTxn, Snapshot, Transact};

#[derive(Clone, Debug, Serialize, Deserialize)]
pub struct Case {
    pub history: History,
    /// snapshot points: after which steps (fractions) replica (k % n) takes a snapshot
    pub snap_after: Vec<u16>,
}

pub struct Snap;

struct Taken {
    rep: usize,
    step: usize,
    snap: Snapshot,
    dump: Node,
}

fn restore(r: &Replica, snap: &Snapshot, v2: bool) -> Result<Vec<u8>, String> {
    let txn = r.doc.transact();
    if v2 {
        let mut enc = EncoderV2::new();
        txn.encode_state_from_snapshot(snap, &mut enc).map_err(|e| format!("{}", e))?;
        Ok(enc.to_vec())
    } else {
        let mut enc = EncoderV1::new();
        txn.encode_state_from_snapshot(snap, &mut enc).map_err(|e| format!("{}", e))?;
        Ok(enc.to_vec())
    }
}

fn check_snapshot(w: &World, t: &Taken, when: &str, st: &mut CaseStats) -> Result<(), Fail> {
    for v2 in [false, true] {
        let bytes = match restore(&w.reps[t.rep], &t.snap, v2) {
            Ok(b) => b,
            Err(e) => fail!("c13/encode-refused", "{}: encode_state_from_snapshot on a skip_gc document failed: {}", when, e),
        };
      // restored into a passive document and into one with the library's defaults (garbage
      // collection and automatic format clean-up on)
      for default_cfg in [false, true] {
        let f = Replica::new(Cfg { client: 7300, utf16: false, skip_gc: !default_cfg, cleanup: default_cfg });
        if let Err(e) = f.apply(&bytes, v2) {
            fail!(
                "c13/restore-undecodable",
                "{}: state encoded from the snapshot taken after step {} (v2={}) cannot be applied: {}",
                when,
                t.step,
                v2,
                e
            );
        }
        let d = f.dump();
        if d != t.dump {
            fail!(
                "c13/restore-differs",
                "{}: document restored from the snapshot taken on replica {} after step {} (v2={}) differs from the content at that time: {}",
                when,
                t.rep,
                t.step,
                v2,
                first_diff(&d, &t.dump).unwrap_or_default()
            );
        }
        st.hit("restores_checked");
      }
    }
    Ok(())
}

impl Prop for Snap {
    type Case = Case;
    fn name(&self) -> &'static str {
        "snapshots"
    }
    fn cases(&self, tier: Tier) -> u64 {
        tier.pick(250_000, 1_500_000)
    }
    fn strategy(&self, tier: Tier) -> BoxedStrategy<Case> {
        let mut shape = HistoryShape::default_for(tier);
        shape.replicas = 1..=3;
        shape.steps = 3..=tier.pick(18, 30);
        let mut p = Profile::all();
        p.subdocs = false;
        (history_strategy(p, shape, false), prop::collection::vec(any::<u16>(), 1..5))
            .prop_map(|(mut history, snap_after)| {
                for c in history.cfgs.iter_mut() {
                    c.skip_gc = true;
                }
                Case { history, snap_after }
            })
            .boxed()
    }

    fn check(&self, case: &Case, st: &mut CaseStats) -> Result<(), Fail> {
        let mut w = World::new(&case.history.cfgs);
        let n = w.reps.len();
        let nsteps = case.history.steps.len();
        let mut taken: Vec<Taken> = Vec::new();
        for (i, s) in case.history.steps.iter().enumerate() {
            if let Err(e) = w.step(s) {
                fail!("c13/transport/apply-failed", "history step {} {:?}: {}", i, s, e);
            }
            for (k, f) in case.snap_after.iter().enumerate() {
                if pick(*f, nsteps) == i {
                    let rep = k % n;
                    if !w.reps[rep].gap_free() {
                        // a state vector cannot describe content integrated beyond a gap
                        st.hit("snapshot_point_skipped_replica_has_gap");
                        continue;
                    }
                    let snap = w.reps[rep].doc.transact().snapshot();
                    // the snapshot survives its own encoding
                    let e1 = snap.encode_v1();
                    let d1 = Snapshot::decode_v1(&e1);
                    ensure!(d1.as_ref().ok() == Some(&snap), "c13/snapshot-roundtrip", "Snapshot v1 round trip: {:?} -> {:?}", snap, d1);
                    let e2 = snap.encode_v2();
                    let d2 = Snapshot::decode_v2(&e2);
                    ensure!(d2.as_ref().ok() == Some(&snap), "c13/snapshot-roundtrip", "Snapshot v2 round trip: {:?} -> {:?}", snap, d2);
                    let t = Taken { rep, step: i, snap, dump: w.reps[rep].dump() };
                    check_snapshot(&w, &t, "immediately", st)?;
                    taken.push(t);
                }
            }
            // re-check older snapshots now and then (continuations extend / split / delete blocks)
            if i % 3 == 2 {
                for t in taken.iter() {
                    if t.step < i {
                        check_snapshot(&w, t, &format!("after step {}", i), st)?;
                    }
                }
            }
        }
        for t in taken.iter() {
            check_snapshot(&w, t, "at the end", st)?;
            if t.step + 1 < nsteps {
                st.nt();
                st.hit("snapshot_with_continuation");
            }
        }
        // a GC-enabled document refuses
        if let Some(t) = taken.first() {
            let gc = Replica::new(Cfg { client: 7400, utf16: false, skip_gc: false, cleanup: false });
            for u in w.updates.iter() {
                let _ = gc.apply_v1(&u.v1);
            }
            ensure!(restore(&gc, &t.snap, false).is_err(), "c13/gc-not-refused", "encode_state_from_snapshot on a GC-enabled document did not return an error");
        }
        Ok(())
    }
}

pub fn property() -> Property {
    Property {
        id: "C13",
        level: "exploration",
        rule: "histories of 1..3 skip_gc replicas (every op kind, deliveries in any order, merges, syncs); at generated points a replica takes a snapshot (and its dump is recorded); immediately, every third step and at the end every recorded snapshot is encoded (v1 and v2) from the then-current document, applied to an empty passive document and to an empty document with the library's defaults (GC and automatic format clean-up on), each compared with the recorded dump; Snapshot encode/decode round trip; a GC-enabled document must refuse.  Non-trivial = the history continued after the snapshot (later edits extend, split, format or delete blocks that existed at snapshot time); distinct = distinct generated case".into(),
        assumptions: vec![
            "snapshots are taken in gap-free states (a state vector cannot describe content integrated beyond a gap; skipped points are counted)".into(),
            "the restored document is compared through the canonical dump; sub-documents are excluded from these histories".into(),
        ],
        parts: vec![Box::new(Part(Snap))],
    }
}
