//! C08 — document-free update algebra agrees with applying updates.

use crate::dump::*;
use crate::engine::*;
use crate::ops::*;
use crate::props::c07::knowledge;
use crate::world::*;
use crate::{ensure, fail};
use proptest::prelude::*;
use serde::{Deserialize, Serialize};
use yrs::updates::decoder::Decode;
use yrs::updates::encoder::Encode;
use yrs::{IdSet, ReadTxn, StateVector, Transact, Update};

#[derive(Clone, Debug, Serialize, Deserialize)]
pub enum Pick {
    /// a registered per-transaction update
    Txn(u16),
    /// full state of a replica
    Full(u8),
    /// difference of replica `from` against the state vector of replica `against`
    Diff { from: u8, against: u8 },
}

#[derive(Clone, Debug, Serialize, Deserialize)]
pub struct Case {
    pub history: History,
    pub picks: Vec<Pick>,
    /// how many registered updates (in emission order) the base documents hold already
    pub base: u16,
    pub v2: bool,
    /// sort keys: order in which the payloads are applied one by one
    pub order: Vec<u16>,
    /// nesting pattern of the merge: sizes of inner groups
    pub nest: Vec<u8>,
    pub merge_order: Vec<u16>,
}

pub struct Algebra;

fn total_knowledge(r: &Replica) -> (IdSet, IdSet) {
    let (ins, ds) = knowledge(r);
    let txn = r.doc.transact();
    let stash = txn.store().pending_update().map(|p| p.update.insertions(true)).unwrap_or_default();
    let pds = txn.store().pending_ds().cloned().unwrap_or_default();
    let pds2 = txn.store().pending_update().map(|p| p.update.delete_set().clone()).unwrap_or_default();
    (ins.merge(&stash), ds.merge(&pds).merge(&pds2))
}

fn merge(parts: &[Vec<u8>], v2: bool) -> Result<Vec<u8>, Fail> {
    let r = if v2 { yrs::merge_updates_v2(parts) } else { yrs::merge_updates_v1(parts) };
    r.map_err(|e| Fail::new("c08/merge-failed", format!("merge_updates (v2={}) failed on valid updates: {}", v2, e)))
}

fn permute<T: Clone>(v: &[T], keys: &[u16]) -> Vec<T> {
    let mut idx: Vec<usize> = (0..v.len()).collect();
    idx.sort_by_key(|i| (keys[*i % keys.len().max(1)], *i));
    idx.into_iter().map(|i| v[i].clone()).collect()
}

fn make_base(w: &World, n: usize, client: u64) -> Result<Replica, Fail> {
    let r = Replica::new(Cfg { client, utf16: false, skip_gc: true, cleanup: false });
    for i in 0..n {
        if let Err(e) = r.apply_v1(&w.updates[i].v1) {
            fail!("c08/transport/apply-failed", "base document, update {}: {}", i, e);
        }
    }
    r.drain();
    Ok(r)
}

/// effect comparison.  Ok(true) = same effect; Ok(false) = both routes hold the same blocks
/// (integrated + stashed) but at least one keeps some of them in its stash, which explains every
/// other difference (known finding G6; the caller still checks that completion makes them equal);
/// Err = the routes really differ.
fn same_effect(x: &Replica, y: &Replica, what: &str) -> Result<bool, Fail> {
    let (kx, ky) = (total_knowledge(x), total_knowledge(y));
    ensure!(
        kx.0 == ky.0,
        "c08/knowledge-differs",
        "{}: the two routes end with different blocks (integrated + stashed): only in first {:?}, only in second {:?}",
        what,
        kx.0.diff(&ky.0),
        ky.0.diff(&kx.0)
    );
    let stashed = |r: &Replica| {
        let txn = r.doc.transact();
        txn.store().pending_update().map(|p| !p.update.insertions(true).is_empty()).unwrap_or(false)
    };
    let (dx, dy) = (x.dump(), y.dump());
    let same = kx.1 == ky.1 && dx == dy && x.has_missing() == y.has_missing() && sv_to_vec(&x.sv()) == sv_to_vec(&y.sv());
    if same {
        return Ok(true);
    }
    if stashed(x) || stashed(y) {
        return Ok(false);
    }
    ensure!(
        kx.1 == ky.1,
        "c08/knowledge-differs",
        "{}: the two routes end with different deletions: only in first {:?}, only in second {:?}",
        what,
        kx.1.diff(&ky.1),
        ky.1.diff(&kx.1)
    );
    fail!("c08/effect-differs", "{}: {}", what, first_diff(&dx, &dy).unwrap_or_else(|| "state vectors or pending state differ".into()))
}

impl Prop for Algebra {
    type Case = Case;
    fn name(&self) -> &'static str {
        "algebra"
    }
    fn cases(&self, tier: Tier) -> u64 {
        tier.pick(200_000, 1_500_000)
    }
    fn strategy(&self, tier: Tier) -> BoxedStrategy<Case> {
        let mut shape = HistoryShape::default_for(tier);
        shape.steps = 4..=tier.pick(20, 32);
        let pick = prop_oneof![
            8 => any::<u16>().prop_map(Pick::Txn),
            1 => any::<u8>().prop_map(Pick::Full),
            2 => (any::<u8>(), any::<u8>()).prop_map(|(from, against)| Pick::Diff { from, against }),
        ];
        (
            history_strategy(Profile::all(), shape, false),
            prop::collection::vec(pick, 2..7),
            prop_oneof![2 => Just(0u16), 3 => any::<u16>()],
            any::<bool>(),
            prop::collection::vec(any::<u16>(), 1..8),
            prop::collection::vec(1u8..4, 1..4),
            prop::collection::vec(any::<u16>(), 1..8),
        )
            .prop_map(|(history, picks, base, v2, order, nest, merge_order)| Case { history, picks, base, v2, order, nest, merge_order })
            .boxed()
    }

    fn check(&self, case: &Case, st: &mut CaseStats) -> Result<(), Fail> {
        let mut w = World::new(&case.history.cfgs);
        for (i, s) in case.history.steps.iter().enumerate() {
            if let Err(e) = w.step(s) {
                fail!("c08/transport/apply-failed", "history step {} {:?}: {}", i, s, e);
            }
        }
        let n_up = w.updates.len();
        if n_up < 2 {
            return Ok(());
        }
        let n = w.reps.len();
        let v2 = case.v2;
        // payloads
        let mut payloads: Vec<Vec<u8>> = Vec::new();
        for p in case.picks.iter() {
            match p {
                Pick::Txn(k) => {
                    let u = &w.updates[pick(*k, n_up)];
                    payloads.push(if v2 { u.v2.clone() } else { u.v1.clone() });
                }
                Pick::Full(r) => {
                    let txn = w.reps[*r as usize % n].doc.transact();
                    payloads.push(if v2 { txn.encode_state_as_update_v2(&StateVector::default()) } else { txn.encode_state_as_update_v1(&StateVector::default()) });
                    st.hit("full_state_payload");
                }
                Pick::Diff { from, against } => {
                    let sv = w.reps[*against as usize % n].sv();
                    let txn = w.reps[*from as usize % n].doc.transact();
                    payloads.push(if v2 { txn.encode_state_as_update_v2(&sv) } else { txn.encode_state_as_update_v1(&sv) });
                    st.hit("diff_payload");
                }
            }
        }
        // classification of the multiset
        let decoded: Vec<Update> = {
            let mut v = Vec::new();
            for p in payloads.iter() {
                match if v2 { Update::decode_v2(p) } else { Update::decode_v1(p) } {
                    Ok(u) => v.push(u),
                    Err(e) => fail!("c08/payload-undecodable", "a payload produced by the library does not decode: {}", e),
                }
            }
            v
        };
        let mut overlap = false;
        let mut union = IdSet::new();
        for u in decoded.iter() {
            let ins = u.insertions(true);
            if !ins.intersect(&union).is_empty() {
                overlap = true;
            }
            union.merge_with(ins);
        }
        let has_skip = decoded.iter().any(|u| yrs::verif_hooks::update_units(u).iter().any(|x| x.kind == yrs::verif_hooks::BlockKind::Skip));
        let has_gc = decoded.iter().any(|u| yrs::verif_hooks::update_units(u).iter().any(|x| x.kind == yrs::verif_hooks::BlockKind::GC));
        if overlap {
            st.hit("inputs_overlap");
        }
        if has_skip {
            st.hit("inputs_with_skip");
        }
        if has_gc {
            st.hit("inputs_with_gc");
        }
        let nbase = if case.base == 0 { 0 } else { pick(case.base, n_up) };
        if overlap || has_skip || has_gc || nbase > 0 {
            st.nt();
        }

        // route 1: one by one (generated order); route 2: merged (generated argument order + nesting)
        let one = make_base(&w, nbase, 7801)?;
        for (k, p) in permute(&payloads, &case.order).iter().enumerate() {
            if let Err(e) = one.apply(p, v2) {
                fail!("c08/transport/apply-failed", "one-by-one route, payload {}: {}", k, e);
            }
        }
        let merged_args = permute(&payloads, &case.merge_order);
        let flat = merge(&merged_args, v2)?;
        let mut nested_parts: Vec<Vec<u8>> = Vec::new();
        let mut i = 0;
        let mut g = 0;
        while i < merged_args.len() {
            let size = (case.nest[g % case.nest.len().max(1)] as usize).clamp(1, 3).min(merged_args.len() - i);
            nested_parts.push(if size == 1 { merged_args[i].clone() } else { merge(&merged_args[i..i + size], v2)? });
            i += size;
            g += 1;
        }
        let nested = merge(&nested_parts, v2)?;
        let reversed: Vec<Vec<u8>> = merged_args.iter().rev().cloned().collect();
        let rev = merge(&reversed, v2)?;

        let m_flat = make_base(&w, nbase, 7802)?;
        let m_nested = make_base(&w, nbase, 7803)?;
        let m_rev = make_base(&w, nbase, 7804)?;
        for (r, bytes, what) in [(&m_flat, &flat, "flat merge"), (&m_nested, &nested, "nested merge"), (&m_rev, &rev, "merge of reversed arguments")] {
            if let Err(e) = r.apply(bytes, v2) {
                fail!("c08/merged-undecodable", "{}: the merged update cannot be applied: {}", what, e);
            }
        }
        let mut g6: Vec<&str> = Vec::new();
        if !same_effect(&m_flat, &m_nested, "flat merge vs nested merge")? {
            g6.push("flat merge vs nested merge");
        }
        if !same_effect(&m_flat, &m_rev, "merge vs merge of reversed arguments")? {
            g6.push("merge vs merge of reversed arguments");
        }
        if !same_effect(&one, &m_flat, "one by one vs merged")? {
            g6.push("one by one vs merged");
        }

        // diff_updates(u, sv(R)) applied to R == u applied to a twin of R
        {
            let r1 = make_base(&w, nbase, 7805)?;
            let r2 = make_base(&w, nbase, 7806)?;
            let u = &flat;
            let d = if v2 { yrs::diff_updates_v2(u, &r1.sv().encode_v2()) } else { yrs::diff_updates_v1(u, &r1.sv().encode_v1()) };
            let d = match d {
                Ok(d) => d,
                Err(e) => fail!("c08/diff-failed", "diff_updates failed on a valid update: {}", e),
            };
            if let Err(e) = r1.apply(&d, v2) {
                fail!("c08/diff-undecodable", "the result of diff_updates cannot be applied: {}", e);
            }
            if let Err(e) = r2.apply(u, v2) {
                fail!("c08/transport/apply-failed", "twin: {}", e);
            }
            if !same_effect(&r1, &r2, "diff_updates(u, sv(R)) on R vs u on a twin of R")? {
                g6.push("diff_updates vs plain");
            }
        }

        // encode_state_vector_from_update
        for (k, p) in payloads.iter().chain(std::iter::once(&flat)).enumerate() {
            let u = if v2 { Update::decode_v2(p) } else { Update::decode_v1(p) }.map_err(|e| Fail::new("c08/payload-undecodable", format!("{}", e)))?;
            let units = yrs::verif_hooks::update_units(&u);
            let mut gap_free = !units.iter().any(|x| x.kind == yrs::verif_hooks::BlockKind::Skip);
            for (_, ranges) in u.insertions(true).iter() {
                let rs: Vec<_> = ranges.iter().cloned().collect();
                if rs.len() != 1 || rs[0].start != 0 {
                    gap_free = false;
                }
            }
            if !gap_free {
                continue;
            }
            let fresh = Replica::new(Cfg { client: 7810, utf16: false, skip_gc: true, cleanup: false });
            if fresh.apply(p, v2).is_err() || fresh.has_missing() {
                // not self-contained (depends on blocks of clients it does not mention)
                st.hit("sv_from_update_premise_not_self_contained");
                continue;
            }
            let got = if v2 { yrs::encode_state_vector_from_update_v2(p).and_then(|b| StateVector::decode_v2(&b)) } else { yrs::encode_state_vector_from_update_v1(p).and_then(|b| StateVector::decode_v1(&b)) };
            let got = match got {
                Ok(g) => g,
                Err(e) => fail!("c08/sv-from-update-failed", "payload {}: {}", k, e),
            };
            st.hit("sv_from_update_checked");
            ensure!(
                sv_to_vec(&got) == sv_to_vec(&fresh.sv()),
                "c08/sv-from-update",
                "payload {}: encode_state_vector_from_update gives {:?} but an empty document after applying it has {:?}",
                k,
                sv_to_vec(&got),
                sv_to_vec(&fresh.sv())
            );
        }

        // completion: after the remaining updates are delivered to both routes they are equal and complete
        for r in [&one, &m_flat] {
            for i in 0..n_up {
                if let Err(e) = r.apply_v1(&w.updates[i].v1) {
                    fail!("c08/transport/apply-failed", "completion, update {}: {}", i, e);
                }
            }
            ensure!(!r.has_missing(), "c08/completion-pending", "after delivering every update a route still reports missing updates");
        }
        let (d1, d2) = (one.dump(), m_flat.dump());
        if d1 != d2 {
            fail!("c08/completion-differs", "after delivering every update the two routes differ: {}", first_diff(&d1, &d2).unwrap_or_default());
        }
        if !g6.is_empty() {
            fail!(
                "c08/held-behind-same-client",
                "{}: both routes hold the same blocks and agree after completion, but before that one of them kept integrable blocks in its stash and showed different content",
                g6.join(", ")
            );
        }
        Ok(())
    }
}

pub fn property() -> Property {
    Property {
        id: "C08",
        level: "exploration",
        rule: "multisets of 2..6 payloads taken from generated histories: per-transaction updates (duplicates allowed), full states and state-vector diffs of replicas (that may have gaps -> Skip blocks, or GC -> GC blocks), in v1 or v2; base documents empty or holding a prefix of the history.  Oracle: applying the payloads one by one (generated order) == applying their flat merge == nested merge == merge of reversed arguments (knowledge incl. stash must be equal; dump, state vector, has_missing compared; completion with all updates must make them equal); diff_updates(u, sv(R)) on R == u on a twin of R; encode_state_vector_from_update(u) == state vector of an empty document after u for gap-free self-contained u.  Non-trivial = inputs overlap, contain Skip or GC blocks, or the base is not empty; distinct = distinct generated case".into(),
        assumptions: vec![
            "effect equivalence, never byte equality".into(),
            "encode_state_vector_from_update premise strengthened: besides being gap-free from clock 0 the update must be self-contained (an empty document has nothing pending after it)".into(),
            "known finding G6 (integrable blocks held in the stash behind a same-client block) is recognised by its signature".into(),
        ],
        parts: vec![Box::new(Part(Algebra))],
    }
}
