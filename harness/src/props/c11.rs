//! C11 — change events describe exactly what changed.
//!
//! A shadow document is maintained ONLY from the events delivered to deep observers of the four
//! root types (new nested values are read at callback time); after every transaction, local or
//! remote, it must equal the canonical dump.

use crate::dump::*;
use crate::engine::*;
use crate::interp::{unit_width, Seg};
use crate::ops::*;
use crate::val::{attrs_to_sorted, AnyV};
use crate::world::*;
use crate::{ensure, fail};
use proptest::prelude::*;
use serde::{Deserialize, Serialize};
use std::collections::{BTreeMap, BTreeSet};
use std::sync::{Arc, Mutex};
use yrs::types::{Change, Delta, EntryChange, Event, PathSegment};
use yrs::{Any, DeepObservable, Observable, OffsetKind, Out, Subscription, TransactionMut, XmlOut};

#[derive(Clone, Debug, Serialize, Deserialize)]
pub struct Case {
    pub history: History,
    pub observed: u8,
}

pub struct Shadow {
    pub root: Node,
    pub errors: Vec<(String, String)>,
    pub deep_fired: BTreeMap<String, u32>,
    pub shallow_fired: BTreeMap<String, u32>,
    pub root_events: BTreeSet<String>,
    pub empty_scripts: u64,
    pub events: u64,
    pub kind: OffsetKind,
}

fn navigate<'a>(root: &'a mut Node, name: &str, path: &[PathSegment]) -> Option<&'a mut Node> {
    let Node::Map(m) = root else { return None };
    let mut cur = m.get_mut(name)?;
    for seg in path {
        cur = match (cur, seg) {
            (Node::Map(m), PathSegment::Key(k)) => m.get_mut(k.as_ref())?,
            (Node::Array(v), PathSegment::Index(i)) => v.get_mut(*i as usize)?,
            (Node::XmlFragment(v), PathSegment::Index(i)) => v.get_mut(*i as usize)?,
            (Node::XmlElement { children, .. }, PathSegment::Index(i)) => children.get_mut(*i as usize)?,
            _ => return None,
        };
    }
    Some(cur)
}

fn take_units(units: &[Unit], from: usize, width: u32, kind: OffsetKind) -> Option<usize> {
    // number of units starting at `from` that cover exactly `width`
    let mut w = 0u32;
    let mut n = 0usize;
    while w < width {
        let u = units.get(from + n)?;
        w += unit_width(&u.v, kind);
        n += 1;
    }
    if w == width {
        Some(n)
    } else {
        None
    }
}

fn apply_text_delta(txn: &TransactionMut, units: &mut Vec<Unit>, delta: &[Delta], kind: OffsetKind) -> Result<(), String> {
    let mut cursor = 0usize;
    for d in delta {
        match d {
            Delta::Retain(len, attrs) => {
                let n = take_units(units, cursor, *len, kind).ok_or_else(|| format!("retain({}) does not end on a unit boundary / exceeds the text (cursor {}, {} units)", len, cursor, units.len()))?;
                if let Some(a) = attrs {
                    for u in units[cursor..cursor + n].iter_mut() {
                        for (k, v) in a.iter() {
                            if let Any::Null = v {
                                u.attrs.remove(k.as_ref());
                            } else {
                                u.attrs.insert(k.to_string(), AnyV::norm_any(v));
                            }
                        }
                    }
                }
                cursor += n;
            }
            Delta::Inserted(value, attrs) => {
                let a: BTreeMap<String, AnyV> = attrs.as_ref().map(|a| attrs_to_sorted(a)).unwrap_or_default().into_iter().filter(|(_, v)| *v != AnyV::Null).collect();
                match value {
                    Out::Any(Any::String(s)) => {
                        let new: Vec<Unit> = s.chars().map(|c| Unit { v: UnitV::Ch(c), attrs: a.clone() }).collect();
                        let k = new.len();
                        units.splice(cursor..cursor, new);
                        cursor += k;
                    }
                    other => {
                        units.insert(cursor, Unit { v: UnitV::Embed(Box::new(dump_out(txn, other, 0))), attrs: a });
                        cursor += 1;
                    }
                }
            }
            Delta::Deleted(len) => {
                let n = take_units(units, cursor, *len, kind).ok_or_else(|| format!("delete({}) does not end on a unit boundary / exceeds the text (cursor {}, {} units)", len, cursor, units.len()))?;
                units.drain(cursor..cursor + n);
            }
        }
    }
    Ok(())
}

fn apply_changes(txn: &TransactionMut, list: &mut Vec<Node>, changes: &[Change]) -> Result<(), String> {
    let mut cursor = 0usize;
    for c in changes {
        match c {
            Change::Retain(n) => {
                cursor += *n as usize;
                if cursor > list.len() {
                    return Err(format!("retain past the end ({} > {})", cursor, list.len()));
                }
            }
            Change::Added(values) => {
                let new: Vec<Node> = values.iter().map(|o| dump_out(txn, o, 0)).collect();
                let k = new.len();
                if cursor > list.len() {
                    return Err("insert past the end".into());
                }
                list.splice(cursor..cursor, new);
                cursor += k;
            }
            Change::Removed(n) => {
                if cursor + *n as usize > list.len() {
                    return Err(format!("removes {} elements at {} but only {} exist", n, cursor, list.len()));
                }
                list.drain(cursor..cursor + *n as usize);
            }
        }
    }
    Ok(())
}

fn old_matches(txn: &TransactionMut, old: &Out, shadow: Option<&Node>) -> bool {
    match (old, shadow) {
        (Out::Any(a), Some(Node::Any(s))) => AnyV::norm_any(a) == *s,
        (Out::Any(_), _) => false,
        // a removed shared type: its content is gone, compare the kind only
        (Out::YText(_), Some(Node::Text(_))) | (Out::YArray(_), Some(Node::Array(_))) | (Out::YMap(_), Some(Node::Map(_))) => true,
        (Out::YXmlElement(_), Some(Node::XmlElement { .. })) | (Out::YXmlFragment(_), Some(Node::XmlFragment(_))) | (Out::YXmlText(_), Some(Node::XmlText { .. })) => true,
        (Out::YDoc(d), Some(Node::Doc(g))) => d.guid().to_string() == *g,
        (_, Some(_)) => {
            let _ = txn;
            true
        }
        (_, None) => false,
    }
}

fn apply_keys(txn: &TransactionMut, map: &mut BTreeMap<String, Node>, keys: &std::collections::HashMap<Arc<str>, EntryChange>) -> Result<(), String> {
    for (k, ch) in keys.iter() {
        let k = k.to_string();
        match ch {
            EntryChange::Inserted(v) => {
                if map.contains_key(&k) {
                    return Err(format!("key {:?} reported as Inserted but the observer already saw a value under it", k));
                }
                map.insert(k, dump_out(txn, v, 0));
            }
            EntryChange::Updated(old, new) => {
                if !old_matches(txn, old, map.get(&k)) {
                    return Err(format!("key {:?} Updated: reported old value {} but the observer saw {:?}", k, old, map.get(&k).map(|n| n.short())));
                }
                map.insert(k, dump_out(txn, new, 0));
            }
            EntryChange::Removed(old) => {
                if !old_matches(txn, old, map.get(&k)) {
                    return Err(format!("key {:?} Removed: reported old value {} but the observer saw {:?}", k, old, map.get(&k).map(|n| n.short())));
                }
                map.remove(&k);
            }
        }
    }
    Ok(())
}

impl Shadow {
    fn on_deep(&mut self, root: &str, txn: &TransactionMut, events: &yrs::types::Events) {
        *self.deep_fired.entry(root.to_string()).or_default() += 1;
        for e in events.iter() {
            self.events += 1;
            let path: Vec<PathSegment> = e.path().into_iter().collect();
            if path.is_empty() {
                self.root_events.insert(root.to_string());
            }
            let kind = self.kind;
            let where_ = format!("{}{:?}", root, path);
            let Some(node) = navigate(&mut self.root, root, &path) else {
                self.errors.push(("c11/path-not-found".into(), format!("event path {} does not lead to a type the observer knows", where_)));
                continue;
            };
            let before = node.clone();
            let r: Result<(), String> = match (e, node) {
                (Event::Text(te), Node::Text(units)) => apply_text_delta(txn, units, te.delta(txn), kind),
                (Event::XmlText(te), Node::XmlText { attrs, units }) => apply_text_delta(txn, units, te.delta(txn), kind).and_then(|_| apply_keys(txn, attrs, te.keys(txn))),
                (Event::Array(ae), Node::Array(list)) => apply_changes(txn, list, ae.delta(txn)),
                (Event::Map(me), Node::Map(map)) => apply_keys(txn, map, me.keys(txn)),
                (Event::XmlFragment(xe), Node::XmlFragment(children)) => apply_changes(txn, children, xe.delta(txn)),
                (Event::XmlFragment(xe), Node::XmlElement { attrs, children, .. }) => apply_changes(txn, children, xe.delta(txn)).and_then(|_| apply_keys(txn, attrs, xe.keys(txn))),
                (_, n) => Err(format!("event kind does not match the observed type {}", n.short())),
            };
            match r {
                Err(msg) => self.errors.push(("c11/script-not-applicable".into(), format!("{}: {}", where_, msg))),
                Ok(()) => {
                    if navigate(&mut self.root, root, &path).map(|n| *n == before).unwrap_or(false) {
                        self.empty_scripts += 1;
                    }
                }
            }
        }
    }
}

pub struct Events;

fn root_of(path: &[Seg]) -> Option<&'static str> {
    match path.first() {
        Some(Seg::Root(n)) => Some(n),
        _ => None,
    }
}

impl Prop for Events {
    type Case = Case;
    fn name(&self) -> &'static str {
        "events"
    }
    fn cases(&self, tier: Tier) -> u64 {
        tier.pick(300_000, 2_000_000)
    }
    fn strategy(&self, tier: Tier) -> BoxedStrategy<Case> {
        let mut shape = HistoryShape::default_for(tier);
        shape.steps = 3..=tier.pick(22, 36);
        shape.ops_per_txn = 4;
        shape.w_sync = 1;
        let mut p = Profile::all();
        p.embed_nested = false;
        p.remove_weight = 4;
        (history_strategy(p, shape, false), any::<u8>(), any::<bool>())
            .prop_map(|(mut history, observed, cleanup)| {
                // the observed replica cleans up formatting automatically in half of the cases (the
                // library's default): a clean-up runs after the observers, so it must be invisible
                let n = history.cfgs.len();
                history.cfgs[observed as usize % n].cleanup = cleanup;
                Case { history, observed }
            })
            .boxed()
    }

    fn check(&self, case: &Case, st: &mut CaseStats) -> Result<(), Fail> {
        let mut w = World::new(&case.history.cfgs);
        let n = w.reps.len();
        let obs = case.observed as usize % n;
        let shadow = Arc::new(Mutex::new(Shadow {
            root: crate::interp::empty_model(),
            errors: vec![],
            deep_fired: BTreeMap::new(),
            shallow_fired: BTreeMap::new(),
            root_events: BTreeSet::new(),
            empty_scripts: 0,
            events: 0,
            kind: w.reps[obs].cfg.kind(),
        }));
        let mut subs: Vec<Subscription> = Vec::new();
        {
            let r = &w.reps[obs];
            macro_rules! deep {
                ($ty:expr, $name:expr) => {{
                    let s = shadow.clone();
                    subs.push($ty.observe_deep(move |txn, ev| s.lock().unwrap().on_deep($name, txn, ev)));
                    let s2 = shadow.clone();
                    subs.push($ty.observe(move |_txn, _e| {
                        *s2.lock().unwrap().shallow_fired.entry($name.to_string()).or_default() += 1;
                    }));
                }};
            }
            deep!(r.roots.text, ROOT_TEXT);
            deep!(r.roots.arr, ROOT_ARRAY);
            deep!(r.roots.map, ROOT_MAP);
            deep!(r.roots.xml, ROOT_XML);
        }
        for (i, s) in case.history.steps.iter().enumerate() {
            let when = format!("after step {} {:?}", i, s);
            let touches_obs = match s {
                Step::Local { r, .. } => *r as usize % n == obs,
                Step::Deliver { to, .. } | Step::Dup { to, .. } | Step::Merge { to, .. } | Step::Sync { to, .. } => *to as usize % n == obs,
            };
            let received_before = w.reps[obs].received.clone();
            {
                let mut sh = shadow.lock().unwrap();
                sh.deep_fired.clear();
                sh.shallow_fired.clear();
                sh.root_events.clear();
            }
            let info = match w.step(s) {
                Ok(x) => x,
                Err(e) => fail!("c11/transport/apply-failed", "{}: {}", when, e),
            };
            if !touches_obs {
                continue;
            }
            // which roots could legitimately fire: roots addressed by the ops of this transaction
            // (local) or by the author-side ops of the updates that were new to the replica
            let mut addressed: BTreeSet<&'static str> = BTreeSet::new();
            let mut precise = true;
            match (&info, s) {
                (StepInfo::Local { update, .. }, _) => {
                    if let Some(u) = update {
                        for r in w.updates[*u].ops.iter() {
                            if let Some(name) = root_of(&r.path) {
                                addressed.insert(name);
                            }
                        }
                    }
                }
                (_, Step::Sync { .. }) => precise = false,
                _ => {
                    // everything the replica was given so far and had not integrated may surface now (stash)
                    for u in w.reps[obs].received.iter() {
                        if !received_before.contains(u) || w.reps[obs].has_missing() || true {
                            for r in w.updates[*u].ops.iter() {
                                if let Some(name) = root_of(&r.path) {
                                    addressed.insert(name);
                                }
                            }
                        }
                    }
                }
            }
            let mut sh = shadow.lock().unwrap();
            if let Some((sig, msg)) = sh.errors.first() {
                fail!(sig.clone(), "{}: {}", when, msg);
            }
            for (root, cnt) in sh.deep_fired.iter() {
                ensure!(*cnt <= 1, "c11/fired-twice", "{}: the deep observer of {} fired {} times in one transaction", when, root, cnt);
                if precise {
                    ensure!(addressed.contains(root.as_str()), "c11/untouched-type-fired", "{}: the deep observer of root {:?} fired although nothing in that transaction addressed it", when, root);
                }
            }
            for (root, cnt) in sh.shallow_fired.iter() {
                ensure!(*cnt <= 1, "c11/fired-twice", "{}: the observer of {} fired {} times in one transaction", when, root, cnt);
                ensure!(sh.root_events.contains(root), "c11/shallow-without-deep", "{}: observe() of root {} fired but its deep observer saw no event for the root itself", when, root);
            }
            for root in sh.root_events.iter() {
                ensure!(sh.shallow_fired.contains_key(root), "c11/deep-without-shallow", "{}: the deep observer saw an event for root {} itself but observe() did not fire", when, root);
            }
            let d = w.reps[obs].dump();
            if d != sh.root {
                fail!(
                    "c11/shadow-differs",
                    "{}: the content rebuilt from events differs from the real content: {}",
                    when,
                    first_diff(&sh.root, &d).unwrap_or_default()
                );
            }
            if !matches!(s, Step::Local { .. }) && !sh.deep_fired.is_empty() {
                st.hit("remote_transactions_with_events");
                st.nt();
            }
            if let Step::Local { ops, .. } = s {
                if ops.len() >= 3 && !sh.deep_fired.is_empty() {
                    st.hit("local_multi_op_transactions_with_events");
                    st.nt();
                }
            }
            drop(sh);
        }
        let sh = shadow.lock().unwrap();
        st.add("events_applied", sh.events);
        st.add("empty_scripts_tolerated", sh.empty_scripts);
        drop(sh);
        drop(subs);
        Ok(())
    }
}

pub fn property() -> Property {
    Property {
        id: "C11",
        level: "exploration",
        rule: "multi-replica histories (every op kind, up to 4 ops per transaction incl. insert-then-delete of the same element, nested types in arrays/maps/XML, both offset kinds, GC on/off, automatic format clean-up on the observed replica on/off) with observe and observe_deep on the four root types of one generated replica; a shadow document is updated ONLY by applying the reported text deltas (retain/insert/delete counted in the configured unit and required to fall on unit boundaries), array/XML change lists and map/attribute key changes (Inserted requires absence, Updated/Removed require the reported old value to be what the observer saw), located by path(); new nested values are read at callback time.  After every local or remote transaction on that replica: shadow == canonical dump, each observer fired at most once, observe() fired iff the deep observer saw an event for the root itself, and (local / per-update remote transactions) only roots addressed by the transaction's operations fired.  Non-trivial = a remote transaction produced events or a local transaction with >=3 ops did; distinct = distinct generated case".into(),
        assumptions: vec![
            "shared types embedded into text are excluded (their path segment is not an element index)".into(),
            "an event with an empty script on an addressed type is tolerated and counted (DESIGN section 7)".into(),
            "the old value of a removed shared type is compared by kind only (its content is gone)".into(),
        ],
        parts: vec![Box::new(Part(Events))],
    }
}

#[allow(dead_code)]
fn _unused(_: XmlOut) {}
