//! C17 — all read paths agree with each other, on every reachable replica state.

use crate::engine::*;
use crate::ops::*;
use crate::reads::check_reads;
use crate::world::*;
use crate::fail;
use proptest::prelude::*;
use yrs::{ReadTxn, Transact};

pub struct Histories;

fn has_tombstone_or_gc(r: &Replica) -> bool {
    let txn = r.doc.transact();
    yrs::verif_hooks::store_blocks(txn.store()).iter().any(|b| b.deleted)
}

impl Prop for Histories {
    type Case = History;
    fn name(&self) -> &'static str {
        "histories"
    }
    fn cases(&self, tier: Tier) -> u64 {
        tier.pick(750_000, 4_000_000)
    }
    fn strategy(&self, tier: Tier) -> BoxedStrategy<History> {
        let mut shape = HistoryShape::default_for(tier);
        shape.steps = 4..=tier.pick(20, 36);
        let mut p = Profile::all();
        p.remove_weight = 5;
        (any::<bool>(), history_strategy(p, shape, false))
            .prop_map(|(cleanup, mut h)| {
                for c in h.cfgs.iter_mut() {
                    c.cleanup = cleanup;
                }
                h
            })
            .boxed()
    }
    fn check(&self, case: &History, st: &mut CaseStats) -> Result<(), Fail> {
        let mut w = World::new(&case.cfgs);
        for (i, s) in case.steps.iter().enumerate() {
            let touched: Vec<usize> = match s {
                Step::Local { r, .. } => vec![*r as usize % w.reps.len()],
                Step::Deliver { to, .. } | Step::Dup { to, .. } | Step::Merge { to, .. } | Step::Sync { to, .. } => vec![*to as usize % w.reps.len()],
            };
            if let Err(e) = w.step(s) {
                fail!("c17/transport/apply-failed", "history step {} {:?}: {}", i, s, e);
            }
            for r in touched {
                let rep = &w.reps[r];
                let txn = rep.doc.transact();
                match check_reads(&txn, &rep.roots, rep.cfg.kind(), st) {
                    Ok(_) => {}
                    Err(f) => return Err(Fail::new(f.sig, format!("replica {} after step {} {:?}: {}", r, i, s, f.msg))),
                }
                drop(txn);
                if has_tombstone_or_gc(rep) {
                    st.nt();
                    st.hit("state_with_tombstones");
                }
                if !matches!(s, Step::Local { .. }) {
                    st.hit("state_after_remote_update");
                }
            }
        }
        Ok(())
    }
}

pub fn property() -> Property {
    Property {
        id: "C17",
        level: "exploration",
        rule: "multi-replica histories as in C01 (rich in removals, every op kind, nested types, both offset kinds, GC on/off, format clean-up on/off); after EVERY step every live shared type of the touched replica is visited by DFS and all public accessors are compared pairwise (array len/iter/get/to_json, text len/get_string/diff, map len/keys/values/iter/contains_key/get/to_json, XML children/get/first_child/siblings fwd+back/parent/successors/attributes/rendered string).  Non-trivial = the replica state contains tombstones or collected blocks; distinct = distinct generated history".into(),
        assumptions: vec![
            "node identity in XML checks is BranchID; rendering of an element is compared up to attribute order (HashMap order)".into(),
            "the rendered string of a formatted XML text is not recomputed (it carries markup); its len/diff agreement is".into(),
        ],
        parts: vec![Box::new(Part(Histories))],
    }
}
