//! C03 — each shared type behaves like its sequential data structure on one replica.
//!
//! Oracle: reference model (a `dump::Node` tree) updated by the same concrete calls.

use crate::dump::*;
use crate::engine::*;
use crate::interp::*;
use crate::ops::*;
use crate::{ensure, fail};
use proptest::prelude::*;
use serde::{Deserialize, Serialize};
use yrs::{ClientID, Doc, GetString, OffsetKind, Options, ReadTxn, Text, Transact};

#[derive(Clone, Debug, Serialize, Deserialize)]
pub struct Case {
    pub utf16: bool,
    pub skip_gc: bool,
    pub cleanup: bool,
    /// transactions, each a list of ops
    pub txns: Vec<Vec<Op>>,
}

pub struct Seq;

pub fn make_doc(client: u64, utf16: bool, skip_gc: bool, cleanup: bool) -> Doc {
    let mut o = Options::with_client_id(ClientID::new(client));
    o.offset_kind = if utf16 { OffsetKind::Utf16 } else { OffsetKind::Bytes };
    o.skip_gc = skip_gc;
    o.cleanup_formatting = cleanup;
    o.guid = format!("doc-{}", client).into();
    Doc::with_options(o)
}

/// length checks that do not go through the dump
fn check_lengths<T: ReadTxn>(txn: &T, roots: &Roots, model: &Node, kind: OffsetKind) -> Result<(), Fail> {
    let Node::Map(m) = model else { unreachable!() };
    if let Some(Node::Text(units)) = m.get(ROOT_TEXT) {
        let expect = units_width(units, kind);
        ensure!(
            roots.text.len(txn) == expect,
            "c03/text/len",
            "root text len() = {} but model width = {} ({:?})",
            roots.text.len(txn),
            expect,
            kind
        );
        let s: String = units
            .iter()
            .filter_map(|u| match &u.v {
                UnitV::Ch(c) => Some(*c),
                _ => None,
            })
            .collect();
        ensure!(roots.text.get_string(txn) == s, "c03/text/get_string", "get_string {:?} != model {:?}", roots.text.get_string(txn), s);
    }
    Ok(())
}

impl Prop for Seq {
    type Case = Case;
    fn name(&self) -> &'static str {
        "sequential"
    }
    fn cases(&self, tier: Tier) -> u64 {
        tier.pick(750_000, 4_000_000)
    }
    fn strategy(&self, tier: Tier) -> BoxedStrategy<Case> {
        let p = Profile::all();
        let max_txns = tier.pick(12, 24);
        (any::<bool>(), any::<bool>(), any::<bool>(), prop::collection::vec(txn_ops(&p, 4), 1..=max_txns))
            .prop_map(|(utf16, skip_gc, cleanup, txns)| Case { utf16, skip_gc, cleanup, txns })
            .boxed()
    }

    fn check(&self, case: &Case, st: &mut CaseStats) -> Result<(), Fail> {
        let doc = make_doc(1, case.utf16, case.skip_gc, case.cleanup);
        let roots = Roots::declare(&doc);
        let kind = if case.utf16 { OffsetKind::Utf16 } else { OffsetKind::Bytes };
        let mut model = empty_model();
        let mut alloc = Alloc::default();
        for (ti, ops) in case.txns.iter().enumerate() {
            {
                let mut txn = doc.transact_mut();
                for (oi, op) in ops.iter().enumerate() {
                    let Some(r) = resolve(&txn, &roots, op, &mut alloc) else {
                        st.hit("op_without_target");
                        continue;
                    };
                    classify(&txn, &r, st);
                    let ret = apply_real(&mut txn, &r, kind);
                    let mret = match apply_model(&mut model, &r) {
                        Ok(m) => m,
                        Err(e) => fail!("c03/harness/model-navigation", "txn {} op {}: {} for {:?}", ti, oi, e, r.cop),
                    };
                    match (&ret, &mret) {
                        (Ret::Bool(a), Ret::Bool(b)) => {
                            ensure!(a == b, "c03/map/try_update-return", "txn {} op {}: try_update returned {} model {} ({:?})", ti, oi, a, b, r.cop)
                        }
                        (Ret::Removed(a), Ret::Removed(b)) => {
                            let ok = match (a, b) {
                                (None, None) => true,
                                (Some(x), Some(y @ Node::Any(_))) => x == y,
                                (Some(_), Some(_)) => true,
                                _ => false,
                            };
                            ensure!(ok, "c03/map/remove-return", "txn {} op {}: remove returned {:?} model {:?}", ti, oi, a, b);
                        }
                        _ => {}
                    }
                    let d = dump_doc(&txn, &roots);
                    if d != model {
                        fail!(
                            format!("c03/model-mismatch/{}", cop_name(&r.cop)),
                            "after txn {} op {} {:?} at {:?}: {}",
                            ti,
                            oi,
                            r.cop,
                            r.path,
                            first_diff(&d, &model).unwrap_or_default()
                        );
                    }
                    check_lengths(&txn, &roots, &model, kind)?;
                    st.hit(cop_name(&r.cop));
                }
            }
            // after commit (squash, GC, format clean-up must not change anything readable)
            let txn = doc.transact();
            let d = dump_doc(&txn, &roots);
            if d != model {
                fail!("c03/model-mismatch/after-commit", "after commit of txn {}: {}", ti, first_diff(&d, &model).unwrap_or_default());
            }
            check_lengths(&txn, &roots, &model, kind)?;
        }
        Ok(())
    }
}

pub fn cop_name(c: &COp) -> &'static str {
    match c {
        COp::TextInsert { attrs: None, push: false, .. } => "text_insert",
        COp::TextInsert { attrs: None, push: true, .. } => "text_push",
        COp::TextInsert { .. } => "text_insert_with_attributes",
        COp::TextEmbed { .. } => "text_embed",
        COp::TextFormat { .. } => "text_format",
        COp::TextRemove { .. } => "text_remove",
        COp::TextDelta { .. } => "text_apply_delta",
        COp::ArrInsert { .. } => "array_insert",
        COp::ArrRemove { .. } => "array_remove",
        COp::MapSet { .. } => "map_insert",
        COp::MapTryUpdate { .. } => "map_try_update",
        COp::MapGetOrInit { .. } => "map_get_or_init",
        COp::MapRemove { .. } => "map_remove",
        COp::MapClear => "map_clear",
        COp::XmlInsert { .. } => "xml_insert",
        COp::XmlRemove { .. } => "xml_remove",
        COp::XmlSetAttr { .. } => "xml_set_attr",
        COp::XmlRemoveAttr { .. } => "xml_remove_attr",
    }
}

/// non-triviality: the call lands strictly inside existing content (forces a split), touches a
/// multi-byte character, formats a range that already carries marks, or addresses a nested type
fn classify<T: ReadTxn>(txn: &T, r: &Resolved, st: &mut CaseStats) {
    if r.path.len() > 1 {
        st.hit("nested_target");
        st.nt();
    }
    let units = match r.target.as_ref() {
        Some(yrs::Out::YText(t)) => text_units(txn, t, 0),
        Some(yrs::Out::YXmlText(t)) => text_units(txn, t, 0),
        _ => vec![],
    };
    let wide = |i: usize| -> bool {
        units.get(i).map(|u| matches!(u.v, UnitV::Ch(c) if c.len_utf8() > 1)).unwrap_or(false)
    };
    match &r.cop {
        COp::TextInsert { idx, .. } | COp::TextEmbed { idx, .. } => {
            if *idx > 0 && *idx < units.len() {
                st.hit("insert_inside_existing_text");
                st.nt();
            }
            if (*idx > 0 && wide(*idx - 1)) || wide(*idx) {
                st.hit("edit_next_to_multibyte_char");
                st.nt();
            }
        }
        COp::TextFormat { idx, len, .. } => {
            if units[*idx..*idx + *len].iter().any(|u| !u.attrs.is_empty()) {
                st.hit("format_over_formatted_range");
                st.nt();
            }
            if *idx > 0 || *idx + *len < units.len() {
                st.nt();
            }
        }
        COp::TextRemove { idx, len } => {
            if *idx > 0 || *idx + *len < units.len() {
                st.hit("remove_inside_existing_text");
                st.nt();
            }
            if wide(*idx) || (*idx > 0 && wide(*idx - 1)) {
                st.hit("edit_next_to_multibyte_char");
            }
        }
        COp::TextDelta { .. } => {
            if !units.is_empty() {
                st.nt();
            }
        }
        COp::ArrInsert { idx, .. } => {
            if *idx > 0 {
                st.nt();
            }
        }
        COp::ArrRemove { .. } | COp::XmlRemove { .. } => st.nt(),
        _ => {}
    }
}

pub fn property() -> Property {
    Property {
        id: "C03",
        level: "exploration",
        rule: "programs of 1..12 (thorough 24) transactions x 1..4 API calls on root and nested text / XML text / array / map / XML element+fragment, generated by selectors resolved against the current state (always in range, on unit boundaries), over {Bytes,Utf16} x {gc on,off} x {format clean-up on,off}; after every call and every commit the canonical dump, len() and get_string() are compared with the reference model.  Non-trivial = some call lands strictly inside existing content (split), touches a multi-byte character, formats an already formatted range, removes content or addresses a nested type; distinct = distinct generated program".into(),
        assumptions: vec![
            "reference model: plain insert inherits the attributes of the unit to its left, insert_with_attributes/apply_delta inserts carry exactly the given non-null attributes, format sets/removes keys on the covered units".into(),
            "out-of-range indices and positions inside of a character are outside of the domain".into(),
            "embedded values are non-strings (an embedded string is indistinguishable from text in diff())".into(),
        ],
        parts: vec![Box::new(Part(Seq))],
    }
}
