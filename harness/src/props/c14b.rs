//! C14 (second file) — sticky indexes at the start / end of *nested* collections.
//!
//! The main part anchors in root collections (scope `Root`) or at elements (scope `Relative`).  An
//! index taken at the start or end of a nested collection names the item that holds the collection
//! (scope `Nested`) — its own code path in creation, resolution and serialization.  Here the
//! collection is nested in the root map, created empty or with content by clients of every id
//! width, the index is copied through binary v1/v2 and JSON, and original and copies must keep
//! resolving to the start (0) or the end (current length) on the author and on a remote replica
//! while the collection is edited from both sides.

use crate::engine::*;
use crate::{ensure, fail};
use proptest::prelude::*;
use serde::{Deserialize, Serialize};
use yrs::block::ClientID;
use yrs::branch::{Branch, BranchPtr};
use yrs::updates::decoder::Decode;
use yrs::updates::encoder::Encode;
use yrs::{
    Array, ArrayPrelim, ArrayRef, Assoc, Doc, GetString, Map, MapRef, OffsetKind, Options, Out, ReadTxn, StateVector, StickyIndex, Text, TextPrelim, TextRef, Transact, Update, XmlElementPrelim,
    XmlElementRef, XmlFragment, XmlTextPrelim,
};

const CLIENTS: [u64; 5] = [1, 2, 1u64 << 32, (1u64 << 44) + 12, (1u64 << 53) - 1];

#[derive(Clone, Debug, Serialize, Deserialize)]
pub struct NCase {
    pub client: u8,
    pub utf16: bool,
    /// 0 text, 1 array, 2 XML element (child list)
    pub kind: u8,
    /// elements the collection holds when the index is taken (0 = empty)
    pub initial: u8,
    /// Assoc::Before = start of the collection, Assoc::After = its end
    pub before: bool,
    /// later edits: (on the remote replica?, where: 0 front 1 back 2 remove-front 3 remove-back)
    pub edits: Vec<(bool, u8)>,
}

pub struct NestedEnds;

enum Coll {
    T(TextRef),
    A(ArrayRef),
    X(XmlElementRef),
}

fn make_doc(client: u64, utf16: bool) -> Doc {
    let mut o = Options::with_client_id(ClientID::new(client));
    o.offset_kind = if utf16 { OffsetKind::Utf16 } else { OffsetKind::Bytes };
    Doc::with_options(o)
}

fn find<T: ReadTxn>(txn: &T, root: &MapRef) -> Option<Coll> {
    match root.get(txn, "n") {
        Some(Out::YText(t)) => Some(Coll::T(t)),
        Some(Out::YArray(a)) => Some(Coll::A(a)),
        Some(Out::YXmlElement(x)) => Some(Coll::X(x)),
        _ => None,
    }
}

fn len_of<T: ReadTxn>(txn: &T, c: &Coll) -> u32 {
    match c {
        Coll::T(t) => t.len(txn),
        Coll::A(a) => a.len(txn),
        Coll::X(x) => x.len(txn),
    }
}

fn branch_of(c: &Coll) -> BranchPtr {
    match c {
        Coll::T(t) => BranchPtr::from(AsRef::<Branch>::as_ref(t)),
        Coll::A(a) => BranchPtr::from(AsRef::<Branch>::as_ref(a)),
        Coll::X(x) => BranchPtr::from(AsRef::<Branch>::as_ref(x)),
    }
}

fn sync(from: &Doc, to: &Doc) -> Result<(), Fail> {
    let sv = to.transact().state_vector();
    let bytes = from.transact().encode_state_as_update_v1(&sv);
    let u = match Update::decode_v1(&bytes) {
        Ok(u) => u,
        Err(e) => fail!("c14/nested/transport", "update does not decode: {}", e),
    };
    if let Err(e) = to.transact_mut().apply_update(u) {
        fail!("c14/nested/transport", "update does not apply: {}", e);
    }
    Ok(())
}

impl Prop for NestedEnds {
    type Case = NCase;
    fn name(&self) -> &'static str {
        "nested-ends"
    }
    fn cases(&self, tier: Tier) -> u64 {
        tier.pick(150_000, 1_000_000)
    }
    fn strategy(&self, _tier: Tier) -> BoxedStrategy<NCase> {
        (0u8..5, any::<bool>(), 0u8..3, prop_oneof![2 => Just(0u8), 1 => 1u8..4], any::<bool>(), prop::collection::vec((any::<bool>(), 0u8..4), 0..8))
            .prop_map(|(client, utf16, kind, initial, before, edits)| NCase { client, utf16, kind, initial, before, edits })
            .boxed()
    }
    fn check(&self, case: &NCase, st: &mut CaseStats) -> Result<(), Fail> {
        let client = CLIENTS[(case.client % 5) as usize];
        let a_doc = make_doc(client, case.utf16);
        let a_map = a_doc.get_or_insert_map("m");
        let b_doc = make_doc(9001, case.utf16);
        let b_map = b_doc.get_or_insert_map("m");
        let _ = StateVector::default();
        let kind = case.kind % 3;
        let mut counter = 0u32;
        {
            let mut txn = a_doc.transact_mut();
            match kind {
                0 => {
                    a_map.insert(&mut txn, "n", TextPrelim::new(""));
                }
                1 => {
                    a_map.insert(&mut txn, "n", ArrayPrelim::default());
                }
                _ => {
                    a_map.insert(&mut txn, "n", XmlElementPrelim::empty("p"));
                }
            }
        }
        let mut push = |doc: &Doc, map: &MapRef, front: bool| {
            let mut txn = doc.transact_mut();
            let Some(c) = find(&txn, map) else { return };
            let at = if front { 0 } else { len_of(&txn, &c) };
            counter += 1;
            match c {
                Coll::T(t) => t.insert(&mut txn, at, ["x", "\u{e9}", "\u{1f600}"][(counter % 3) as usize]),
                Coll::A(a) => {
                    a.insert(&mut txn, at, counter as i64);
                }
                Coll::X(x) => {
                    x.insert(&mut txn, at, XmlTextPrelim::new("t"));
                }
            }
        };
        for _ in 0..case.initial.min(3) {
            push(&a_doc, &a_map, false);
        }
        let assoc = if case.before { Assoc::Before } else { Assoc::After };
        let idx = {
            let txn = a_doc.transact();
            let Some(c) = find(&txn, &a_map) else { fail!("c14/nested/harness", "nested collection not found") };
            StickyIndex::from_type(&txn, &branch_of(&c), assoc)
        };
        let mut copies: Vec<(&'static str, StickyIndex)> = vec![("original", idx.clone())];
        match StickyIndex::decode_v1(&idx.encode_v1()) {
            Ok(c) => copies.push(("binary v1 copy", c)),
            Err(e) => fail!("c14/nested/serialization", "binary v1 form of {:?} does not decode: {}", idx, e),
        }
        match StickyIndex::decode_v2(&idx.encode_v2()) {
            Ok(c) => copies.push(("binary v2 copy", c)),
            Err(e) => fail!("c14/nested/serialization", "binary v2 form of {:?} does not decode: {}", idx, e),
        }
        match serde_json::to_string(&idx).map_err(|e| e.to_string()).and_then(|s| serde_json::from_str::<StickyIndex>(&s).map_err(|e| e.to_string())) {
            Ok(c) => copies.push(("JSON copy", c)),
            Err(e) => fail!("c14/nested/serialization", "JSON form of {:?} does not survive: {}", idx, e),
        }
        for (name, c) in copies.iter() {
            ensure!(*c == idx, "c14/nested/serialization", "the {} of {:?} reads {:?}", name, idx, c);
        }
        if client >= (1u64 << 32) {
            st.hit("wide_client_id");
        }
        if case.initial == 0 {
            st.hit("taken_on_empty_collection");
        }
        st.nt();
        sync(&a_doc, &b_doc)?;
        let resolve = |doc: &Doc, map: &MapRef, who: &str, when: &str| -> Result<(), Fail> {
            let txn = doc.transact();
            let Some(c) = find(&txn, map) else { fail!("c14/nested/harness", "{} {}: nested collection not found", who, when) };
            let want = if case.before { 0 } else { len_of(&txn, &c) };
            for (name, i) in copies.iter() {
                match i.get_offset(&txn) {
                    Some(off) => {
                        ensure!(
                            off.index == want && off.branch == branch_of(&c),
                            "c14/nested/resolution",
                            "{} {}: the {} of the index at the {} of the nested collection resolves to {} (expected {})",
                            who,
                            when,
                            name,
                            if case.before { "start" } else { "end" },
                            off.index,
                            want
                        );
                    }
                    None => fail!("c14/nested/unresolved", "{} {}: the {} does not resolve although the collection is known", who, when, name),
                }
            }
            Ok(())
        };
        resolve(&a_doc, &a_map, "author", "right after creation")?;
        resolve(&b_doc, &b_map, "remote replica", "right after creation")?;
        for (ei, (remote, wh)) in case.edits.iter().enumerate() {
            let (doc, map) = if *remote { (&b_doc, &b_map) } else { (&a_doc, &a_map) };
            match wh % 4 {
                0 => push(doc, map, true),
                1 => push(doc, map, false),
                w => {
                    let mut txn = doc.transact_mut();
                    if let Some(c) = find(&txn, map) {
                        let len = len_of(&txn, &c);
                        if len > 0 {
                            match c {
                                Coll::A(a) => a.remove(&mut txn, if w == 2 { 0 } else { len - 1 }),
                                Coll::X(x) => x.remove_range(&mut txn, if w == 2 { 0 } else { len - 1 }, 1),
                                Coll::T(t) => {
                                    // one whole character
                                    let s = t.get_string(&txn);
                                    let ch = if w == 2 { s.chars().next() } else { s.chars().last() };
                                    if let Some(ch) = ch {
                                        let wdt = if case.utf16 { ch.len_utf16() } else { ch.len_utf8() } as u32;
                                        t.remove_range(&mut txn, if w == 2 { 0 } else { len - wdt }, wdt);
                                    }
                                }
                            }
                        }
                    }
                }
            }
            sync(&a_doc, &b_doc)?;
            sync(&b_doc, &a_doc)?;
            st.hit("edits_after_creation");
            let when = format!("after edit {} {:?}", ei, (remote, wh % 4));
            resolve(&a_doc, &a_map, "author", &when)?;
            resolve(&b_doc, &b_map, "remote replica", &when)?;
        }
        Ok(())
    }
}
