//! C07 — update events form a complete, minimal replication log.
//!
//! One emitting document is driven by local transactions, applications of remote updates (any
//! order, duplicates, merged), undo/redo, forced GC, empty transactions and no-op calls.  Three
//! passive followers (no edits, clean-up off) are fed only by its v1 / v2 / alternating event
//! stream and compared after every single transaction.

use crate::dump::*;
use crate::engine::*;
use crate::interp::*;
use crate::ops::*;
use crate::world::*;
use crate::{ensure, fail};
use proptest::prelude::*;
use serde::{Deserialize, Serialize};
use std::sync::atomic::{AtomicU64, Ordering};
use std::sync::Arc;
use yrs::undo::Options as UndoOptions;
use yrs::{Array, IdSet, Map, ReadTxn, Text, Transact, UndoManager, ID};

#[derive(Clone, Debug, Serialize, Deserialize)]
pub enum EStep {
    /// local transaction on the emitter; origin 0 = none, 1 = "tracked", 2 = "other"
    Local { ops: Vec<Op>, origin: u8 },
    /// another author edits
    RemoteEdit { a: u8, ops: Vec<Op> },
    /// another author receives one update it misses (from the emitter or a third author)
    ToAuthor { a: u8, which: u16 },
    /// the emitter applies one remote update it has not got yet
    FromRemote { which: u16, v2: bool },
    /// the emitter applies an update it already has
    DupRemote { which: u16, v2: bool },
    /// the emitter applies several missing remote updates merged in transit
    MergeFromRemote { which: Vec<u16>, v2: bool },
    Undo,
    Redo,
    Gc,
    Empty,
    /// calls that change nothing: 0 remove missing key, 1 empty text insert, 2 empty insert_range, 3 try_update with the present value
    Noop(u8),
    Clock(u16),
}

#[derive(Clone, Debug, Serialize, Deserialize)]
pub struct Case {
    pub cfgs: Vec<Cfg>,
    pub steps: Vec<EStep>,
    pub undo_scope: u8,
}

pub struct Log;

/// (integrated ids, deleted ids) of a replica, from the block store
pub fn knowledge(r: &Replica) -> (IdSet, IdSet) {
    let txn = r.doc.transact();
    let mut ins = IdSet::new();
    let mut ds = IdSet::new();
    for b in yrs::verif_hooks::store_blocks(txn.store()) {
        if b.kind != yrs::verif_hooks::BlockKind::Skip {
            ins.insert(ID::new(b.client, b.clock), b.len);
            if b.deleted {
                ds.insert(ID::new(b.client, b.clock), b.len);
            }
        }
    }
    (ins, ds)
}

fn estep_strategy(p: &Profile, n_auth: u8) -> BoxedStrategy<EStep> {
    let mut v: Vec<(u32, BoxedStrategy<EStep>)> = vec![
        (8, (txn_ops(p, 3), 0u8..3).prop_map(|(ops, origin)| EStep::Local { ops, origin }).boxed()),
        (2, Just(EStep::Undo).boxed()),
        (1, Just(EStep::Redo).boxed()),
        (1, Just(EStep::Gc).boxed()),
        (1, Just(EStep::Empty).boxed()),
        (1, (0u8..4).prop_map(EStep::Noop).boxed()),
        (1, any::<u16>().prop_map(EStep::Clock).boxed()),
    ];
    if n_auth > 0 {
        v.push((5, (0..n_auth, txn_ops(p, 3)).prop_map(|(a, ops)| EStep::RemoteEdit { a, ops }).boxed()));
        v.push((3, (0..n_auth, any::<u16>()).prop_map(|(a, which)| EStep::ToAuthor { a, which }).boxed()));
        v.push((6, (any::<u16>(), any::<bool>()).prop_map(|(which, v2)| EStep::FromRemote { which, v2 }).boxed()));
        v.push((1, (any::<u16>(), any::<bool>()).prop_map(|(which, v2)| EStep::DupRemote { which, v2 }).boxed()));
        v.push((1, (prop::collection::vec(any::<u16>(), 2..4), any::<bool>()).prop_map(|(which, v2)| EStep::MergeFromRemote { which, v2 }).boxed()));
    }
    proptest::strategy::Union::new_weighted(v).boxed()
}

impl Prop for Log {
    type Case = Case;
    fn name(&self) -> &'static str {
        "log"
    }
    fn cases(&self, tier: Tier) -> u64 {
        tier.pick(600_000, 1_500_000)
    }
    fn strategy(&self, tier: Tier) -> BoxedStrategy<Case> {
        let max_steps = tier.pick(24, 40);
        (cfgs_strategy(1..=3, false), any::<bool>(), 0u8..4)
            .prop_flat_map(move |(mut cfgs, cleanup, undo_scope)| {
                cfgs[0].cleanup = cleanup;
                let n_auth = (cfgs.len() - 1) as u8;
                (Just(cfgs), prop::collection::vec(estep_strategy(&Profile::all(), n_auth), 2..=max_steps), Just(undo_scope))
            })
            .prop_map(|(cfgs, steps, undo_scope)| Case { cfgs, steps, undo_scope })
            .boxed()
    }

    fn check(&self, case: &Case, st: &mut CaseStats) -> Result<(), Fail> {
        let mut w = World::new(&case.cfgs);
        let n = w.reps.len();
        let clock = Arc::new(AtomicU64::new(1_000));
        let c2 = clock.clone();
        let mut mgr: UndoManager = UndoManager::with_options(UndoOptions {
            capture_timeout_millis: 500,
            timestamp: Arc::new(move || c2.load(Ordering::SeqCst)),
            ..Default::default()
        });
        {
            let e = &w.reps[0];
            mgr.include_origin("tracked");
            match case.undo_scope % 4 {
                0 => mgr.expand_scope(&e.doc, &e.roots.text),
                1 => mgr.expand_scope(&e.doc, &e.roots.arr),
                2 => mgr.expand_scope(&e.doc, &e.roots.map),
                _ => {
                    mgr.expand_scope(&e.doc, &e.roots.text);
                    mgr.expand_scope(&e.doc, &e.roots.arr);
                    mgr.expand_scope(&e.doc, &e.roots.map);
                    mgr.expand_scope(&e.doc, &e.roots.xml);
                }
            }
        }
        let followers = [
            Replica::new(Cfg { client: 7001, utf16: false, skip_gc: false, cleanup: false }),
            Replica::new(Cfg { client: 7002, utf16: true, skip_gc: true, cleanup: false }),
            Replica::new(Cfg { client: 7003, utf16: false, skip_gc: true, cleanup: false }),
        ];
        let mut emitted = 0usize;
        for (si, step) in case.steps.iter().enumerate() {
            let before = knowledge(&w.reps[0]);
            let mut on_emitter = true;
            let mut label = "local";
            let mut local_ops: Vec<Resolved> = Vec::new();
            match step {
                EStep::Local { ops, origin } => {
                    let kind = w.reps[0].cfg.kind();
                    let e = &w.reps[0];
                    let mut txn = match origin % 3 {
                        0 => e.doc.transact_mut(),
                        1 => e.doc.transact_mut_with("tracked"),
                        _ => e.doc.transact_mut_with("other"),
                    };
                    local_ops = run_ops(&mut txn, &e.roots, ops, &mut w.alloc, kind);
                }
                EStep::RemoteEdit { a, ops } => {
                    on_emitter = false;
                    if n < 2 {
                        continue; // no other author in this case
                    }
                    let r = 1 + (*a as usize % (n - 1));
                    w.local(r, ops);
                }
                EStep::ToAuthor { a, which } => {
                    on_emitter = false;
                    if n < 2 {
                        continue;
                    }
                    let r = 1 + (*a as usize % (n - 1));
                    let miss = w.missing(r);
                    if !miss.is_empty() {
                        let idx = miss[pick(*which, miss.len())];
                        if let Err(e) = w.deliver(r, idx, false) {
                            fail!("c07/transport/apply-failed", "step {}: author {} applying update {}: {}", si, r, idx, e);
                        }
                    }
                }
                EStep::FromRemote { which, v2 } => {
                    label = "remote";
                    let miss = w.missing(0);
                    if miss.is_empty() {
                        on_emitter = false;
                    } else {
                        let idx = miss[pick(*which, miss.len())];
                        let bytes = if *v2 { w.updates[idx].v2.clone() } else { w.updates[idx].v1.clone() };
                        if let Err(e) = w.reps[0].apply(&bytes, *v2) {
                            fail!("c07/transport/apply-failed", "step {}: emitter applying update {}: {}", si, idx, e);
                        }
                        w.reps[0].received.insert(idx);
                        if !w.updates[idx].deps.is_subset(&w.reps[0].received) {
                            st.hit("remote_update_out_of_causal_order");
                        }
                    }
                }
                EStep::DupRemote { which, v2 } => {
                    label = "duplicate";
                    let have: Vec<usize> = w.reps[0].received.iter().copied().filter(|i| w.updates[*i].author != 0).collect();
                    if have.is_empty() {
                        on_emitter = false;
                    } else {
                        let idx = have[pick(*which, have.len())];
                        let bytes = if *v2 { w.updates[idx].v2.clone() } else { w.updates[idx].v1.clone() };
                        if let Err(e) = w.reps[0].apply(&bytes, *v2) {
                            fail!("c07/transport/apply-failed", "step {}: emitter re-applying update {}: {}", si, idx, e);
                        }
                        st.hit("duplicate_remote_update");
                    }
                }
                EStep::MergeFromRemote { which, v2 } => {
                    label = "remote-merged";
                    let miss = w.missing(0);
                    if miss.len() < 2 {
                        on_emitter = false;
                    } else {
                        let mut idxs: Vec<usize> = which.iter().map(|x| miss[pick(*x, miss.len())]).collect();
                        idxs.dedup();
                        let bytes = match w.merged_bytes(&idxs, *v2) {
                            Ok(b) => b,
                            Err(e) => fail!("c07/transport/merge-failed", "step {}: {}", si, e),
                        };
                        if let Err(e) = w.reps[0].apply(&bytes, *v2) {
                            fail!("c07/transport/apply-failed", "step {}: emitter applying merged {:?}: {}", si, idxs, e);
                        }
                        for i in idxs {
                            w.reps[0].received.insert(i);
                        }
                    }
                }
                EStep::Undo => {
                    label = "undo";
                    mgr.undo_blocking();
                    st.hit("undo");
                }
                EStep::Redo => {
                    label = "redo";
                    mgr.redo_blocking();
                }
                EStep::Gc => {
                    label = "forced-gc";
                    w.reps[0].doc.transact_mut().gc(None);
                }
                EStep::Empty => {
                    label = "empty";
                    let _ = w.reps[0].doc.transact_mut();
                }
                EStep::Noop(k) => {
                    label = "noop";
                    let e = &w.reps[0];
                    let mut txn = e.doc.transact_mut();
                    match k % 4 {
                        0 => {
                            e.roots.map.remove(&mut txn, "never-set");
                        }
                        1 => e.roots.text.insert(&mut txn, 0, ""),
                        2 => e.roots.arr.insert_range(&mut txn, 0, Vec::<yrs::Any>::new()),
                        _ => {
                            if let Some(yrs::Out::Any(v)) = e.roots.map.get(&txn, "k0") {
                                e.roots.map.try_update(&mut txn, "k0", v);
                            }
                        }
                    }
                }
                EStep::Clock(ms) => {
                    on_emitter = false;
                    clock.fetch_add(*ms as u64 % 1200, Ordering::SeqCst);
                }
            }
            if !on_emitter {
                continue;
            }
            let ev = w.reps[0].drain();
            let after = knowledge(&w.reps[0]);
            let changed = before != after;
            ensure!(
                ev.v1.len() == ev.v2.len() && ev.v1.len() <= 1,
                "c07/event-count",
                "step {} ({}): {} v1 and {} v2 update events for one transaction",
                si,
                label,
                ev.v1.len(),
                ev.v2.len()
            );
            if changed && ev.v1.is_empty() {
                fail!(
                    "c07/missing-event",
                    "step {} ({}): the transaction changed the document (new blocks {:?}, new deletions {:?}) but no update event was emitted",
                    si,
                    label,
                    after.0.diff(&before.0),
                    after.1.diff(&before.1)
                );
            }
            if !changed && !ev.v1.is_empty() {
                fail!("c07/spurious-event", "step {} ({}): the transaction changed nothing but an update event was emitted", si, label);
            }
            if changed {
                st.hit("transactions_that_changed_state");
                match label {
                    "remote" | "remote-merged" => {
                        st.hit("remote_transactions");
                        st.nt();
                    }
                    "undo" | "redo" => {
                        st.hit("undo_redo_transactions");
                        st.nt();
                    }
                    _ => {}
                }
            } else {
                st.hit("transactions_without_change");
            }
            if let (Some(v1), Some(v2)) = (ev.v1.first(), ev.v2.first()) {
                emitted += 1;
                for (k, f) in followers.iter().enumerate() {
                    let use_v2 = match k {
                        0 => false,
                        1 => true,
                        _ => emitted % 2 == 0,
                    };
                    if let Err(e) = f.apply(if use_v2 { v2 } else { v1 }, use_v2) {
                        fail!("c07/event-undecodable", "step {} ({}): follower {} cannot apply the emitted event (v2={}): {}", si, label, k, use_v2, e);
                    }
                    f.drain();
                }
                // local transactions of the emitter are updates other authors may receive
                if matches!(step, EStep::Local { .. } | EStep::Undo | EStep::Redo) {
                    let deps = w.reps[0].received.clone();
                    let idx = w.updates.len();
                    let (ins, ds) = match yrs::Update::decode_v1(v1) {
                        Ok(u) => (u.insertions(true), u.delete_set().clone()),
                        Err(_) => (IdSet::new(), IdSet::new()),
                    };
                    w.updates.push(UpdateRec { author: 0, v1: v1.clone(), v2: v2.clone(), ins, ds, deps, ops: local_ops.clone() });
                    w.reps[0].received.insert(idx);
                }
            }
            let d = w.reps[0].dump();
            let sv = sv_to_vec(&w.reps[0].sv());
            for (k, f) in followers.iter().enumerate() {
                let fd = f.dump();
                if fd != d {
                    fail!(
                        "c07/follower-differs",
                        "after step {} ({}): follower {} (fed by the {} stream) differs from the emitting document: {}",
                        si,
                        label,
                        k,
                        ["v1", "v2", "alternating"][k],
                        first_diff(&fd, &d).unwrap_or_default()
                    );
                }
                let fsv = sv_to_vec(&f.sv());
                ensure!(fsv == sv, "c07/follower-state-vector", "after step {} ({}): follower {} state vector {:?} != emitter {:?}", si, label, k, fsv, sv);
            }
        }
        Ok(())
    }
}

use yrs::updates::decoder::Decode;

pub fn property() -> Property {
    Property {
        id: "C07",
        level: "exploration",
        rule: "one emitting document (generated GC/offset/clean-up configuration, UndoManager over a generated scope with harness clock) driven by 2..24 (thorough 40) steps: local transactions with tracked/untracked/no origin, edits of 0..2 other authors, application of their updates to the emitter in ANY order (also duplicates and merged in transit), undo, redo, forced GC, empty transactions, no-op calls; three passive followers apply only the emitted v1 / v2 / alternating events.  After every emitter transaction: #events v1 = v2 <= 1, an event exists iff the set of integrated ids or the delete set changed (hook store_blocks), followers' dump and state vector equal the emitter's.  Non-trivial = the case contains a state-changing application of a remote update or an undo/redo; distinct = distinct generated case".into(),
        assumptions: vec![
            "'changed' is decided from the block store (integrated ids, deleted ids), independent of before_state/after_state used by the emitter".into(),
            "followers run with cleanup_formatting=false as the property states".into(),
        ],
        parts: vec![Box::new(Part(Log))],
    }
}
