//! C10 — decoders are total on untrusted bytes.
//!
//! Every generated input is executed in isolated worker processes (`dec_worker`): a build with
//! the shipping settings (no debug assertions, wrapping arithmetic as released) and, when present,
//! the same build under AddressSanitizer.  Outcomes: value / error (fine), panic, crash (signal,
//! sanitizer report, abort), memory (committed memory unrelated to the input length), cpu / hang.

use crate::engine::*;
use crate::props::c09b::{build, payload_strategy};
use crate::val::*;
use proptest::prelude::*;
use proptest::strategy::ValueTree;
use serde::{Deserialize, Serialize};
use serde_json::{json, Value};
use std::collections::HashMap;
use std::io::{BufRead, BufReader, Write};
use std::path::{Path, PathBuf};
use std::process::{Child, ChildStdin, ChildStdout, Command, Stdio};
use std::sync::atomic::{AtomicU64, Ordering};
use std::sync::{Arc, Mutex};
use std::time::{Duration, Instant};
use yrs::updates::decoder::Decode;
use yrs::updates::encoder::{Encode, Encoder, EncoderV1};
use yrs::{ClientID, IdSet, StateVector, Update, ID};

pub const ENTRIES: [&str; 21] = [
    "Update::decode_v1",
    "Update::decode_v2",
    "StateVector::decode_v1",
    "StateVector::decode_v2",
    "Snapshot::decode_v1",
    "Snapshot::decode_v2",
    "IdSet::decode_v1",
    "IdSet::decode_v2",
    "StickyIndex::decode_v1",
    "StickyIndex::decode_v2",
    "StickyIndex::from_json",
    "Any::decode",
    "Any::from_json",
    "MessageReader",
    "AwarenessUpdate::decode_v1",
    "merge_updates_v1",
    "merge_updates_v2",
    "diff_updates_v1",
    "diff_updates_v2",
    "encode_state_vector_from_update_v1",
    "encode_state_vector_from_update_v2",
];

#[derive(Clone, Debug, Serialize, Deserialize)]
pub enum Mutation {
    Truncate(u16),
    Flip(u16, u8),
    SetByte(u16, u8),
    /// overwrite at position with an extreme var-int
    VarInt(u16, u8),
    /// insert an extreme var-int at position
    InsertVarInt(u16, u8),
    Splice(u16, Vec<u8>),
    Duplicate(u16, u16),
    Random(Vec<u8>),
}

#[derive(Clone, Debug, Serialize, Deserialize)]
pub struct Input {
    pub entry: u8,
    pub base: Vec<u8>,
    pub muts: Vec<Mutation>,
}

const EXTREMES: [&[u8]; 14] = [
    &[0],
    &[1],
    &[127],
    &[128, 1],
    &[128, 128, 1],
    &[128, 128, 128, 128, 1],
    &[255, 255, 255, 255, 7],
    &[255, 255, 255, 255, 15],
    &[128, 128, 128, 128, 128, 128, 128, 16],
    &[128, 128, 128, 128, 128, 128, 128, 128, 128, 1],
    &[255, 255, 255, 255, 255, 255, 255, 255, 255, 1],
    &[255, 255, 255, 255, 255, 255, 255, 255, 255, 255, 255, 127],
    &[128, 128, 128, 128, 128, 128, 128, 128, 128, 128, 128, 128, 128, 0],
    &[255, 255, 3],
];

impl Input {
    pub fn bytes(&self) -> Vec<u8> {
        let mut b = self.base.clone();
        for m in self.muts.iter() {
            match m {
                Mutation::Truncate(f) => {
                    let k = frac(*f, b.len());
                    b.truncate(k);
                }
                Mutation::Flip(f, bit) => {
                    if !b.is_empty() {
                        let k = pick(*f, b.len());
                        b[k] ^= 1 << (bit % 8);
                    }
                }
                Mutation::SetByte(f, v) => {
                    if !b.is_empty() {
                        let k = pick(*f, b.len());
                        b[k] = *v;
                    }
                }
                Mutation::VarInt(f, w) => {
                    if !b.is_empty() {
                        let k = pick(*f, b.len());
                        let e = EXTREMES[*w as usize % EXTREMES.len()];
                        // replace the var-int that starts at k (bytes with continuation bit + 1)
                        let mut end = k;
                        while end < b.len() && b[end] & 128 != 0 {
                            end += 1;
                        }
                        end = (end + 1).min(b.len());
                        b.splice(k..end, e.iter().copied());
                    }
                }
                Mutation::InsertVarInt(f, w) => {
                    let k = frac(*f, b.len());
                    let e = EXTREMES[*w as usize % EXTREMES.len()];
                    b.splice(k..k, e.iter().copied());
                }
                Mutation::Splice(f, other) => {
                    let k = frac(*f, b.len());
                    b.truncate(k);
                    b.extend_from_slice(other);
                }
                Mutation::Duplicate(f, l) => {
                    if !b.is_empty() {
                        let k = pick(*f, b.len());
                        let n = 1 + frac(*l, (b.len() - k - 1).min(32));
                        let chunk: Vec<u8> = b[k..k + n].to_vec();
                        b.splice(k..k, chunk);
                    }
                }
                Mutation::Random(r) => b = r.clone(),
            }
        }
        b
    }
}

fn sv_bytes(v: &[(u64, u32)], v2: bool) -> Vec<u8> {
    let mut sv = StateVector::default();
    for (c, k) in v {
        sv.set_max(ClientID::new(*c & ((1 << 53) - 1)), *k);
    }
    if v2 {
        sv.encode_v2()
    } else {
        sv.encode_v1()
    }
}

fn ds_of(v: &[(u64, u32, u32)]) -> IdSet {
    let mut ds = IdSet::new();
    for (c, k, l) in v {
        ds.insert(ID::new(ClientID::new(*c & ((1 << 53) - 1)), *k / 2), 1 + *l % 50);
    }
    ds
}

fn deep_any(depth: usize) -> Vec<u8> {
    let mut b = Vec::with_capacity(depth * 2 + 1);
    for _ in 0..depth {
        b.push(117);
        b.push(1);
    }
    b.push(126);
    b
}

fn deep_any_map(depth: usize) -> Vec<u8> {
    let mut b = Vec::with_capacity(depth * 4 + 1);
    for _ in 0..depth {
        b.extend_from_slice(&[118, 1, 1, b'k']);
    }
    b.push(126);
    b
}

fn var_u(mut n: u64, out: &mut Vec<u8>) {
    loop {
        let b = (n & 0x7f) as u8;
        n >>= 7;
        if n != 0 {
            out.push(b | 0x80);
        } else {
            out.push(b);
            break;
        }
    }
}

/// "wide" lib0 v1 updates: element counts (not nesting depths) in the hundreds of thousands — code
/// that walks blocks, clients or ranges recursively fails on these
fn wide_update(kind: u8, n: usize) -> Vec<u8> {
    let mut b = Vec::with_capacity(n * 4 + 16);
    match kind % 8 {
        // delete set of one client with n separate ranges in descending / interleaved / repeated
        // order (a decoder that sorts or merges while it reads must not become quadratic)
        5 | 6 | 7 => {
            var_u(0, &mut b);
            var_u(1, &mut b);
            var_u(1, &mut b);
            var_u(n as u64, &mut b);
            for r in 0..n {
                let k = match kind % 8 {
                    5 => n - 1 - r,
                    6 => {
                        if r % 2 == 0 {
                            r / 2
                        } else {
                            n - 1 - r / 2
                        }
                    }
                    _ => r % 7,
                };
                var_u(2 * k as u64, &mut b);
                var_u(1, &mut b);
            }
            return b;
        }
        _ => {}
    }
    match kind % 8 {
        // one client, n Skip blocks / n GC blocks of length 1
        0 | 1 => {
            var_u(1, &mut b);
            var_u(n as u64, &mut b);
            var_u(1, &mut b);
            var_u(0, &mut b);
            let info = if kind % 8 == 0 { 10u8 } else { 0u8 };
            for _ in 0..n {
                b.push(info);
                b.push(1);
            }
            var_u(0, &mut b);
        }
        // n clients with one GC block each
        2 => {
            var_u(n as u64, &mut b);
            for c in 0..n {
                var_u(1, &mut b);
                var_u(c as u64 + 1, &mut b);
                var_u(0, &mut b);
                b.push(0);
                b.push(1);
            }
            var_u(0, &mut b);
        }
        // delete set with n clients of one range each
        3 => {
            var_u(0, &mut b);
            var_u(n as u64, &mut b);
            for c in 0..n {
                var_u(c as u64 + 1, &mut b);
                var_u(1, &mut b);
                var_u(0, &mut b);
                var_u(1, &mut b);
            }
        }
        // delete set of one client with n separate ranges
        _ => {
            var_u(0, &mut b);
            var_u(1, &mut b);
            var_u(1, &mut b);
            var_u(n as u64, &mut b);
            for r in 0..n {
                var_u(2 * r as u64, &mut b);
                var_u(1, &mut b);
            }
        }
    }
    b
}

/// Families of structurally valid inputs whose size is a parameter: (entry, bytes) of family
/// `fam` with `n` elements.  Used to compare the CPU time at two sizes ("time proportional to
/// the input size": four times the elements must not cost much more than four times the time).
pub const N_FAMILIES: usize = 47;

pub fn scaling_input(fam: usize, n: usize) -> (u8, Vec<u8>) {
    match fam {
        0..=7 => (0, wide_update(fam as u8, n)),
        8..=15 => (19, wide_update((fam - 8) as u8, n)),
        16..=23 => {
            // merge with an empty update
            let mut b = vec![2u8, 0, 0];
            b.extend_from_slice(&wide_update((fam - 16) as u8, n));
            (15, b)
        }
        24..=31 => {
            // diff against the empty state vector
            let mut b = vec![1u8, 0];
            b.extend_from_slice(&wide_update((fam - 24) as u8, n));
            (17, b)
        }
        32..=36 => (6, wide_update((fam - 32 + 3) as u8, n)[1..].to_vec()),
        37..=41 => {
            let mut b = wide_update((fam - 37 + 3) as u8, n)[1..].to_vec();
            b.push(0);
            (4, b)
        }
        42 => {
            // Any: array of n small integers
            let mut b = vec![117u8];
            var_u(n as u64, &mut b);
            for _ in 0..n {
                b.push(125);
                b.push(1);
            }
            (11, b)
        }
        43 => {
            let mut s = String::with_capacity(2 * n + 2);
            s.push('[');
            for i in 0..n {
                if i > 0 {
                    s.push(',');
                }
                s.push('1');
            }
            s.push(']');
            (12, s.into_bytes())
        }
        44 => {
            // state vector of n clients (descending ids)
            let mut b = Vec::new();
            var_u(n as u64, &mut b);
            for c in 0..n {
                var_u((n - c) as u64, &mut b);
                var_u(1, &mut b);
            }
            (2, b)
        }
        45 => (13, vec![3u8; n]),
        _ => {
            // awareness update of n clients
            let mut b = Vec::new();
            var_u(n as u64, &mut b);
            for c in 0..n {
                var_u((n - c) as u64, &mut b);
                var_u(1, &mut b);
                b.push(4);
                b.extend_from_slice(b"null");
            }
            (14, b)
        }
    }
}

/// CPU time (ms) of the shipping worker on family `fam` at `n` elements; None = not a plain
/// value/error outcome (those are reported by the ordinary rules)
fn scaling_cpu(w: &mut Worker, fam: usize, n: usize, slot: &Slot) -> Option<i64> {
    let (entry, data) = scaling_input(fam, n);
    match w.exec(entry, &data, slot) {
        Outcome::Ok | Outcome::Err => Some(w.last_cpu),
        _ => None,
    }
}

pub const SCALING_N: (usize, usize) = (40_000, 160_000);

/// Some(message) if family `fam` scales worse than linearly by a wide margin
fn superlinear(w: &mut Worker, fam: usize, slot: &Slot) -> Option<String> {
    let small = scaling_cpu(w, fam, SCALING_N.0, slot)?;
    let large = scaling_cpu(w, fam, SCALING_N.1, slot)?;
    if large > 250 && large > 10 * small.max(5) {
        // once more, to rule out a hiccup of the machine
        let small2 = scaling_cpu(w, fam, SCALING_N.0, slot)?;
        let large2 = scaling_cpu(w, fam, SCALING_N.1, slot)?;
        if large2 > 250 && large2 > 10 * small2.max(5) {
            return Some(format!(
                "{} elements take {} ms of CPU, {} elements take {} ms (second measurement: {} ms and {} ms): four times the input costs more than ten times the time",
                SCALING_N.0, small, SCALING_N.1, large, small2, large2
            ));
        }
    }
    None
}

fn base_payload(entry: u8) -> BoxedStrategy<Vec<u8>> {
    let upd_v1 = payload_strategy().prop_map(|p| build(&p).0).boxed();
    let upd_v2 = payload_strategy()
        .prop_map(|p| {
            let b = build(&p).0;
            match std::panic::catch_unwind(|| Update::decode_v1(&b).map(|u| u.encode_v2())) {
                Ok(Ok(v2)) => v2,
                _ => Update::EMPTY_V2.to_vec(),
            }
        })
        .boxed();
    let svs = prop::collection::vec((any::<u64>(), any::<u32>()), 0..5);
    let dss = prop::collection::vec((any::<u64>(), any::<u32>(), any::<u32>()), 0..5);
    match entry {
        0 | 19 => prop_oneof![
            8 => upd_v1,
            1 => (1usize..40_000).prop_map(|d| {
                let mut b = vec![1u8, 1, 1, 0, 8, 1, 1, b'a', 1];
                b.extend_from_slice(&deep_any(d));
                b.push(0);
                b
            }),
            1 => (0u8..8, 1usize..300_000).prop_map(|(k, n)| wide_update(k, n)),
        ]
        .boxed(),
        1 | 20 => upd_v2,
        2 => svs.prop_map(|v| sv_bytes(&v, false)).boxed(),
        3 => svs.prop_map(|v| sv_bytes(&v, true)).boxed(),
        4 | 5 => (svs, dss)
            .prop_map(move |(s, d)| {
                let mut sv = StateVector::default();
                for (c, k) in s {
                    sv.set_max(ClientID::new(c & ((1 << 53) - 1)), k);
                }
                let snap = yrs::Snapshot::new(sv, ds_of(&d));
                if entry == 5 {
                    snap.encode_v2()
                } else {
                    snap.encode_v1()
                }
            })
            .boxed(),
        6 => dss.prop_map(|d| ds_of(&d).encode_v1()).boxed(),
        7 => dss.prop_map(|d| ds_of(&d).encode_v2()).boxed(),
        8 | 9 | 10 => (0u8..3, any::<u64>(), any::<u32>(), "[a-z]{0,5}", any::<bool>())
            .prop_map(move |(kind, c, k, name, before)| {
                let id = ID::new(ClientID::new(c & ((1 << 53) - 1)), k);
                let scope = match kind {
                    0 => yrs::IndexScope::Relative(id),
                    1 => yrs::IndexScope::Nested(id),
                    _ => yrs::IndexScope::Root(name.as_str().into()),
                };
                let si = yrs::StickyIndex::new(scope, if before { yrs::Assoc::Before } else { yrs::Assoc::After });
                match entry {
                    8 => si.encode_v1(),
                    9 => si.encode_v2(),
                    _ => serde_json::to_vec(&si).unwrap_or_default(),
                }
            })
            .boxed(),
        11 => prop_oneof![
            8 => any_value(false, 4).prop_map(|a| {
                let mut e = EncoderV1::new();
                a.to_any().encode(&mut e);
                e.to_vec()
            }),
            1 => (1usize..60_000).prop_map(deep_any),
            1 => (1usize..30_000).prop_map(deep_any_map),
        ]
        .boxed(),
        12 => prop_oneof![
            8 => any_value(true, 4).prop_map(|a| {
                let mut s = String::new();
                a.to_any().to_json(&mut s);
                s.into_bytes()
            }),
            1 => (1usize..60_000).prop_map(|d| {
                let mut s = "[".repeat(d);
                s.push_str(&"]".repeat(d));
                s.into_bytes()
            }),
        ]
        .boxed(),
        13 => prop::collection::vec(
            prop_oneof![
                prop::collection::vec((any::<u64>(), any::<u32>()), 0..3).prop_map(|v| {
                    let mut b = vec![0u8, 0];
                    let sv = sv_bytes(&v, false);
                    b.push(sv.len() as u8);
                    b.extend_from_slice(&sv);
                    b
                }),
                prop::collection::vec(any::<u8>(), 0..10).prop_map(|d| {
                    let mut b = vec![0u8, 2, d.len() as u8];
                    b.extend_from_slice(&d);
                    b
                }),
                Just(vec![3u8]),
                Just(vec![2u8, 1]),
                Just(vec![2u8, 0, 2, b'n', b'o']),
                Just(vec![1u8, 6, 1, 5, 1, 2, b'{', b'}']),
                (4u8..=127, prop::collection::vec(any::<u8>(), 0..6)).prop_map(|(t, d)| {
                    let mut b = vec![t, d.len() as u8];
                    b.extend_from_slice(&d);
                    b
                }),
            ],
            0..4,
        )
        .prop_map(|v| v.concat())
        .boxed(),
        14 => prop::collection::vec((any::<u64>(), any::<u32>(), prop_oneof![Just("null"), Just("{}"), Just("{\"a\":1}")]), 0..4)
            .prop_map(|v| {
                let mut e = EncoderV1::new();
                use yrs::encoding::write::Write;
                e.write_var(v.len() as u32);
                for (c, k, j) in v {
                    e.write_var(c & ((1 << 53) - 1));
                    e.write_var(k);
                    e.write_string(j);
                }
                e.to_vec()
            })
            .boxed(),
        15 | 17 => (base_payload(0), base_payload(if entry == 15 { 0 } else { 2 }))
            .prop_map(move |(a, b)| {
                let (first, second) = if entry == 15 { (a, b) } else { (b, a) };
                let mut out = vec![first.len().min(255) as u8];
                out.extend_from_slice(&first[..first.len().min(255)]);
                out.extend_from_slice(&second);
                out
            })
            .boxed(),
        _ => (base_payload(1), base_payload(if entry == 16 { 1 } else { 3 }))
            .prop_map(move |(a, b)| {
                let (first, second) = if entry == 16 { (a, b) } else { (b, a) };
                let mut out = vec![first.len().min(255) as u8];
                out.extend_from_slice(&first[..first.len().min(255)]);
                out.extend_from_slice(&second);
                out
            })
            .boxed(),
    }
}

fn mutation() -> BoxedStrategy<Mutation> {
    prop_oneof![
        3 => any::<u16>().prop_map(Mutation::Truncate),
        3 => (any::<u16>(), any::<u8>()).prop_map(|(p, b)| Mutation::Flip(p, b)),
        2 => (any::<u16>(), prop_oneof![Just(0u8), Just(255), Just(127), Just(128), any::<u8>()]).prop_map(|(p, v)| Mutation::SetByte(p, v)),
        6 => (any::<u16>(), any::<u8>()).prop_map(|(p, w)| Mutation::VarInt(p, w)),
        2 => (any::<u16>(), any::<u8>()).prop_map(|(p, w)| Mutation::InsertVarInt(p, w)),
        1 => (any::<u16>(), prop::collection::vec(any::<u8>(), 0..24)).prop_map(|(p, o)| Mutation::Splice(p, o)),
        1 => (any::<u16>(), any::<u16>()).prop_map(|(p, l)| Mutation::Duplicate(p, l)),
        1 => prop::collection::vec(any::<u8>(), 0..64).prop_map(Mutation::Random),
    ]
    .boxed()
}

pub fn input_strategy() -> BoxedStrategy<Input> {
    (0u8..ENTRIES.len() as u8)
        .prop_flat_map(|entry| (Just(entry), base_payload(entry), prop::collection::vec(mutation(), 0..3)))
        .prop_map(|(entry, base, muts)| Input { entry, base, muts })
        .boxed()
}

// ------------------------------------------------------------------------------------------
// worker management
// ------------------------------------------------------------------------------------------

pub struct Worker {
    path: PathBuf,
    asan: bool,
    /// the unoptimised worker: only stack overflows count (recursion the optimiser happens to turn
    /// into a loop in the shipping build still kills debug builds of an application); its
    /// debug-only assertion and overflow panics are not violations
    crash_only: bool,
    /// CPU time (ms) the worker reported for the last input
    last_cpu: i64,
    confirming: bool,
    child: Child,
    stdin: ChildStdin,
    stdout: BufReader<ChildStdout>,
    stderr_path: PathBuf,
}

#[derive(Debug, Clone, PartialEq)]
pub enum Outcome {
    Ok,
    Err,
    Panic(String),
    Crash(String),
    Memory(i64),
    Cpu(i64),
    Hang,
}

static WORKER_SEQ: AtomicU64 = AtomicU64::new(0);

impl Worker {
    pub fn spawn(path: &Path, asan: bool) -> std::io::Result<Worker> {
        let n = WORKER_SEQ.fetch_add(1, Ordering::SeqCst);
        let dir = Path::new(VERIF_ROOT).join("target").join("c10-stderr");
        std::fs::create_dir_all(&dir)?;
        let stderr_path = dir.join(format!("w{}-{}.log", std::process::id(), n));
        let stderr = std::fs::File::create(&stderr_path)?;
        let mut cmd = Command::new(path);
        cmd.stdin(Stdio::piped()).stdout(Stdio::piped()).stderr(stderr);
        if asan {
            cmd.env("ASAN_OPTIONS", "allocator_may_return_null=1:detect_leaks=0:abort_on_error=1:max_allocation_size_mb=4096:symbolize=1");
            cmd.env("ASAN_SYMBOLIZER_PATH", "/usr/bin/llvm-symbolizer-14");
        } else {
            cmd.env("DEC_WORKER_AS_MB", "6144");
        }
        let mut child = cmd.spawn()?;
        let stdin = child.stdin.take().unwrap();
        let stdout = BufReader::new(child.stdout.take().unwrap());
        let crash_only = path.components().any(|c| c.as_os_str() == "debug");
        Ok(Worker { path: path.to_path_buf(), asan, crash_only, last_cpu: 0, confirming: false, child, stdin, stdout, stderr_path })
    }

    fn respawn(&mut self) {
        let _ = self.child.kill();
        let _ = self.child.wait();
        let _ = std::fs::remove_file(&self.stderr_path);
        if let Ok(w) = Worker::spawn(&self.path, self.asan) {
            *self = w;
        }
    }

    /// executes one input; `deadline` is enforced by the monitor thread through `slot`
    pub fn exec(&mut self, entry: u8, data: &[u8], slot: &Slot) -> Outcome {
        let mut req = Vec::with_capacity(5 + data.len());
        req.push(entry);
        req.extend_from_slice(&(data.len() as u32).to_le_bytes());
        req.extend_from_slice(data);
        slot.arm(self.child.id());
        let wrote = self.stdin.write_all(&req).and_then(|_| self.stdin.flush());
        // raw bytes: a panic message may quote invalid UTF-8 from the input
        let mut raw = Vec::new();
        let read = if wrote.is_ok() { self.stdout.read_until(b'\n', &mut raw) } else { Ok(0) };
        let line = String::from_utf8_lossy(&raw).to_string();
        let killed = slot.disarm();
        match read {
            Ok(n) if n > 0 && line.starts_with("D ") => {
                let mut it = line[2..].trim_end().splitn(4, ' ');
                let outcome = it.next().unwrap_or("");
                let rss: i64 = it.next().and_then(|x| x.parse().ok()).unwrap_or(0);
                let cpu: i64 = it.next().and_then(|x| x.parse().ok()).unwrap_or(0);
                let detail = it.next().unwrap_or("").to_string();
                self.last_cpu = cpu;
                if self.crash_only {
                    // only a crash of this worker counts
                    return if outcome == "ok" { Outcome::Ok } else { Outcome::Err };
                }
                if outcome == "panic" {
                    return Outcome::Panic(detail);
                }
                // committed memory unrelated to the input length
                let allowed_kb = 64 * 1024 + 64 * (data.len() as i64) / 1024 * 16;
                if rss > allowed_kb && !self.asan {
                    return Outcome::Memory(rss);
                }
                if cpu > 20_000 && data.len() <= 256 * 1024 {
                    return Outcome::Cpu(cpu);
                }
                // time proportional to the input size: the shipping build needs at most 0.13 ms
                // of CPU per KiB on everything generated from the unchanged tree (calibration
                // run, DESIGN section 7); 4 ms per KiB plus a second is far outside of that
                if !self.asan && cpu > 1000 + 4 * (data.len() as i64) / 1024 && !self.confirming {
                    // confirm: the smallest of three measurements decides (a loaded machine)
                    self.confirming = true;
                    let mut least = cpu;
                    for _ in 0..2 {
                        match self.exec(entry, data, slot) {
                            Outcome::Ok | Outcome::Err => least = least.min(self.last_cpu),
                            _ => {}
                        }
                    }
                    self.confirming = false;
                    if least > 1000 + 4 * (data.len() as i64) / 1024 {
                        return Outcome::Cpu(least);
                    }
                }
                if outcome == "ok" {
                    Outcome::Ok
                } else {
                    Outcome::Err
                }
            }
            _ => {
                // worker died (or answered garbage): make sure it is gone before waiting for it
                let _ = self.child.kill();
                let status = self.child.wait().ok();
                let stderr = std::fs::read_to_string(&self.stderr_path).unwrap_or_default();
                let mut out = if killed {
                    Outcome::Hang
                } else {
                    Outcome::Crash(crash_kind(&stderr, status))
                };
                if self.crash_only {
                    // unoptimised code is slow and asserts a lot: only a stack overflow is a finding
                    out = match out {
                        Outcome::Crash(k) if k.contains("stack-overflow") => Outcome::Crash(format!("{}-unoptimised-build", k)),
                        _ => Outcome::Err,
                    };
                }
                self.respawn();
                out
            }
        }
    }
}

impl Drop for Worker {
    fn drop(&mut self) {
        let _ = self.child.kill();
        let _ = self.child.wait();
        let _ = std::fs::remove_file(&self.stderr_path);
    }
}

fn crash_kind(stderr: &str, status: Option<std::process::ExitStatus>) -> String {
    use std::os::unix::process::ExitStatusExt;
    if let Some(pos) = stderr.find("AddressSanitizer: ") {
        let rest = &stderr[pos + 18..];
        let kind: String = rest.chars().take_while(|c| !c.is_whitespace()).collect();
        // first frame inside of yrs
        let site = stderr
            .lines()
            .filter(|l| l.trim_start().starts_with('#'))
            .find_map(|l| l.find("/repo/yrs/src/").map(|p| l[p + 6..].trim().to_string()))
            .unwrap_or_default();
        return format!("asan-{} {}", kind, site).trim().to_string();
    }
    if stderr.contains("has overflowed its stack") {
        return "stack-overflow".into();
    }
    if stderr.contains("memory allocation of") {
        return "alloc-failure-abort".into();
    }
    match status.and_then(|s| s.signal()) {
        Some(sig) => format!("signal-{}", sig),
        None => format!("exit-{}", status.and_then(|s| s.code()).unwrap_or(-1)),
    }
}

/// per-shard watchdog slot
#[derive(Clone, Default)]
pub struct Slot(Arc<Mutex<(Option<(u32, Instant)>, bool)>>);

impl Slot {
    fn arm(&self, pid: u32) {
        *self.0.lock().unwrap() = (Some((pid, Instant::now())), false);
    }
    fn disarm(&self) -> bool {
        let mut g = self.0.lock().unwrap();
        let killed = g.1;
        *g = (None, false);
        killed
    }
}

fn monitor(slots: Vec<Slot>, limit: Duration, stop: Arc<std::sync::atomic::AtomicBool>) {
    while !stop.load(Ordering::Relaxed) {
        std::thread::sleep(Duration::from_millis(200));
        for s in slots.iter() {
            let mut g = s.0.lock().unwrap();
            if let Some((pid, t0)) = g.0 {
                if t0.elapsed() > limit && !g.1 {
                    unsafe {
                        libc::kill(pid as i32, libc::SIGKILL);
                    }
                    g.1 = true;
                }
            }
        }
    }
}

pub fn worker_paths() -> Vec<(PathBuf, bool)> {
    let mut v = Vec::new();
    let ship = Path::new(VERIF_ROOT).join("target/ship/dec_worker");
    if ship.exists() {
        v.push((ship, false));
    }
    let asan = Path::new(VERIF_ROOT).join("target/asan/x86_64-unknown-linux-gnu/ship/dec_worker");
    if asan.exists() {
        v.push((asan, true));
    }
    // the harness' own (dev profile) build of the worker: stack overflows only
    let dev = Path::new(VERIF_ROOT).join("target/debug/dec_worker");
    if dev.exists() {
        v.push((dev, false));
    }
    v
}

fn site_of(detail: &str) -> String {
    // "/repo/yrs/src/x.rs:12 message" -> "yrs/src/x.rs:12" ; library paths keep the file name
    let first = detail.split(' ').next().unwrap_or("");
    if let Some(p) = first.find("yrs/src/") {
        first[p..].to_string()
    } else if let Some(p) = first.rfind("/src/") {
        first[p + 1..].to_string()
    } else {
        first.to_string()
    }
}

pub fn signature(entry: u8, o: &Outcome) -> Option<String> {
    let e = ENTRIES[entry as usize % ENTRIES.len()];
    match o {
        Outcome::Ok | Outcome::Err => None,
        Outcome::Panic(d) => Some(format!("c10/{}/panic/{}", e, site_of(d))),
        Outcome::Crash(k) => Some(format!("c10/{}/crash/{}", e, k)),
        Outcome::Memory(_) => Some(format!("c10/{}/memory", e)),
        Outcome::Cpu(_) => Some(format!("c10/{}/cpu", e)),
        Outcome::Hang => Some(format!("c10/{}/hang", e)),
    }
}

fn hex(b: &[u8]) -> String {
    b.iter().map(|x| format!("{:02x}", x)).collect()
}

fn unhex(s: &str) -> Vec<u8> {
    (0..s.len() / 2).filter_map(|i| u8::from_str_radix(&s[2 * i..2 * i + 2], 16).ok()).collect()
}

/// run one input through all workers; first bad outcome wins
fn exec_all(workers: &mut [Worker], entry: u8, data: &[u8], slot: &Slot) -> (Outcome, bool) {
    let mut last = Outcome::Err;
    for w in workers.iter_mut() {
        let o = w.exec(entry, data, slot);
        match o {
            Outcome::Ok | Outcome::Err => last = o,
            bad => return (bad, w.asan),
        }
    }
    (last, false)
}

/// byte-level minimisation that keeps the signature
fn minimise(workers: &mut [Worker], entry: u8, data: &[u8], sig: &str, slot: &Slot) -> Vec<u8> {
    let mut best = data.to_vec();
    let t0 = Instant::now();
    let mut chunk = (best.len() / 2).max(1);
    while chunk >= 1 && t0.elapsed() < Duration::from_secs(60) {
        let mut i = 0;
        let mut progressed = false;
        while i + chunk <= best.len() && t0.elapsed() < Duration::from_secs(60) {
            let mut cand = best.clone();
            cand.drain(i..i + chunk);
            let (o, _) = exec_all(workers, entry, &cand, slot);
            if signature(entry, &o).as_deref() == Some(sig) {
                best = cand;
                progressed = true;
            } else {
                i += chunk;
            }
        }
        if !progressed || chunk == 1 {
            if chunk == 1 {
                break;
            }
        }
        chunk /= 2;
    }
    best
}

pub struct Bytes;

impl DynPart for Bytes {
    fn name(&self) -> String {
        "bytes".into()
    }

    fn run(&self, env: &RunEnv) -> PartReport {
        let mut rep = PartReport::new("bytes");
        let paths = worker_paths();
        if paths.is_empty() {
            rep.notes.push("dec_worker binaries are missing (checks/C10.sh builds them)".into());
            rep.violations.push(Violation { sig: "c10/harness/no-worker".into(), msg: "dec_worker binaries are missing".into(), replay: PathBuf::from("/verif/checks/C10.sh") });
            return rep;
        }
        let has_asan = paths.iter().any(|p| p.1);
        rep.notes.push(format!("workers: {:?}", paths));
        let total = env.scaled(env.tier.pick(150_000, 6_000_000));
        let per = (total + SHARDS - 1) / SHARDS;
        let slots: Vec<Slot> = (0..SHARDS).map(|_| Slot::default()).collect();
        let stop = Arc::new(std::sync::atomic::AtomicBool::new(false));
        let mon = {
            let s = slots.clone();
            let st = stop.clone();
            std::thread::spawn(move || monitor(s, Duration::from_secs(60), st))
        };
        // time proportional to the input size, family by family, on the shipping worker
        if let Some((p, _)) = paths.iter().find(|(p, a)| !*a && !p.components().any(|c| c.as_os_str() == "debug")) {
            if let Ok(mut w) = Worker::spawn(p, false) {
                let slot = &slots[0];
                let mut checked = 0u64;
                for fam in 0..N_FAMILIES {
                    if let Some(msg) = superlinear(&mut w, fam, slot) {
                        let (entry, _) = scaling_input(fam, 1);
                        let e = ENTRIES[entry as usize];
                        let sig = format!("c10/{}/superlinear", e);
                        if env.known.is_known(&env.property, &sig) {
                            *rep.known_hits.entry(sig).or_default() += 1;
                            continue;
                        }
                        let case = json!({"scaling_family": fam, "entry": entry, "entry_name": e, "n_small": SCALING_N.0, "n_large": SCALING_N.1});
                        let f = Fail::new(sig.clone(), format!("{} on a family of valid inputs: {}", e, msg));
                        let path = write_replay(env, "bytes", &case, &f, "scaling-").unwrap_or_default();
                        rep.violations.push(Violation { sig, msg: f.msg, replay: path });
                        stop.store(true, Ordering::Relaxed);
                        let _ = mon.join();
                        return rep;
                    }
                    checked += 1;
                }
                rep.counters.insert("scaling_families_compared_at_two_sizes".into(), checked);
            }
        }
        let scaling_counters = rep.counters.clone();
        let scaling_known = rep.known_hits.clone();
        let next = AtomicU64::new(0);
        let merged = Mutex::new(PartReport::new("bytes"));
        std::thread::scope(|sc| {
            for _ in 0..env.jobs.max(1) {
                sc.spawn(|| loop {
                    let shard = next.fetch_add(1, Ordering::SeqCst);
                    if shard >= SHARDS {
                        break;
                    }
                    let mut local = PartReport::new("bytes");
                    let mut workers: Vec<Worker> = paths.iter().filter_map(|(p, a)| Worker::spawn(p, *a).ok()).collect();
                    let slot = &slots[shard as usize];
                    let mut runner = make_runner(shard_seed(env.seed, &env.property, "bytes", shard));
                    let strategy = input_strategy();
                    let mut counters: HashMap<String, u64> = HashMap::new();
                    for _ in 0..per {
                        if env.stop.load(Ordering::Relaxed) {
                            break;
                        }
                        let Ok(tree) = strategy.new_tree(&mut runner) else { continue };
                        let input = tree.current();
                        let data = input.bytes();
                        if data.len() > 1536 * 1024 {
                            continue;
                        }
                        let (o, by_asan) = exec_all(&mut workers, input.entry, &data, slot);
                        local.evaluations += 1;
                        let e = ENTRIES[input.entry as usize];
                        *counters.entry(format!("entry.{}", e)).or_default() += 1;
                        let light = input.muts.len() <= 1 && !matches!(input.muts.first(), Some(Mutation::Random(_)));
                        match &o {
                            Outcome::Ok => {
                                *counters.entry("outcome.value".into()).or_default() += 1;
                                local.nontrivial.insert(hash_json(&(input.entry, &data)));
                            }
                            Outcome::Err => {
                                *counters.entry("outcome.error".into()).or_default() += 1;
                                if light {
                                    local.nontrivial.insert(hash_json(&(input.entry, &data)));
                                }
                            }
                            _ => {}
                        }
                        if input.muts.is_empty() {
                            *counters.entry("unmutated_valid_payload".into()).or_default() += 1;
                        }
                        if local.samples.len() < 2 && shard < 2 && matches!(o, Outcome::Err) && light {
                            local.samples.push(json!({"entry": e, "bytes_hex": hex(&data[..data.len().min(200)]), "mutations": input.muts, "outcome": "error"}));
                        }
                        if let Some(sig) = signature(input.entry, &o) {
                            if env.known.is_known(&env.property, &sig) {
                                *local.known_hits.entry(sig).or_default() += 1;
                                continue;
                            }
                            // unknown failure: minimise, write replay, stop
                            let small = minimise(&mut workers, input.entry, &data, &sig, slot);
                            let case = json!({"entry": input.entry, "entry_name": e, "bytes_hex": hex(&small), "original_len": data.len(), "found_by": if by_asan { "asan worker" } else { "shipping worker" }});
                            let f = Fail::new(sig.clone(), format!("{} on {} bytes: {:?}", e, small.len(), o));
                            let path = write_replay(env, "bytes", &case, &f, &format!("sh{}-", shard)).unwrap_or_default();
                            local.violations.push(Violation { sig, msg: f.msg, replay: path });
                            env.stop.store(true, Ordering::Relaxed);
                            break;
                        }
                    }
                    for (k, v) in counters {
                        local.counters.insert(k, v);
                    }
                    merged.lock().unwrap().merge(local);
                });
            }
        });
        stop.store(true, Ordering::Relaxed);
        let _ = mon.join();
        let mut rep2 = merged.into_inner().unwrap();
        rep2.notes = rep.notes;
        for (k, v) in scaling_counters {
            rep2.counters.insert(k, v);
        }
        for (k, v) in scaling_known {
            *rep2.known_hits.entry(k).or_default() += v;
        }
        if !has_asan {
            rep2.notes.push("AddressSanitizer worker not built: memory-safety violations that do not crash are invisible".into());
        }
        rep2
    }

    fn replay(&self, case: &Value) -> Result<Option<Fail>, String> {
        let entry = case["entry"].as_u64().ok_or("no entry")? as u8;
        let paths = worker_paths();
        if paths.is_empty() {
            return Err("dec_worker binaries are missing".into());
        }
        if let Some(fam) = case["scaling_family"].as_u64() {
            let Some((p, _)) = paths.iter().find(|(p, a)| !*a && !p.components().any(|c| c.as_os_str() == "debug")) else {
                return Err("shipping dec_worker is missing".into());
            };
            let mut w = Worker::spawn(p, false).map_err(|e| e.to_string())?;
            let slot = Slot::default();
            let e = ENTRIES[entry as usize % ENTRIES.len()];
            return Ok(superlinear(&mut w, fam as usize % N_FAMILIES, &slot).map(|msg| Fail::new(format!("c10/{}/superlinear", e), format!("{} on a family of valid inputs: {}", e, msg))));
        }
        let data = unhex(case["bytes_hex"].as_str().ok_or("no bytes_hex")?);
        let mut workers: Vec<Worker> = paths.iter().filter_map(|(p, a)| Worker::spawn(p, *a).ok()).collect();
        let slot = Slot::default();
        let stop = Arc::new(std::sync::atomic::AtomicBool::new(false));
        let mon = {
            let s = vec![slot.clone()];
            let st = stop.clone();
            std::thread::spawn(move || monitor(s, Duration::from_secs(180), st))
        };
        let (o, _) = exec_all(&mut workers, entry, &data, &slot);
        stop.store(true, Ordering::Relaxed);
        let _ = mon.join();
        Ok(signature(entry, &o).map(|sig| Fail::new(sig, format!("{} on {} bytes: {:?}", ENTRIES[entry as usize % ENTRIES.len()], data.len(), o))))
    }
}

pub fn property() -> Property {
    Property {
        id: "C10",
        level: "exploration",
        rule: "inputs = valid payloads of every decoding entry point (21 entries: update v1/v2, state vector, snapshot, delete set, sticky index binary/JSON, Any binary/JSON, MessageReader, awareness update, merge_updates, diff_updates, encode_state_vector_from_update; updates come from the independent payload builder of C09) with 0..2 generated mutations (truncation at any prefix, bit flip, byte set, substitution/insertion of extreme var-ints {0,1,127,128,2^14,2^28,2^31-1,2^32-1,2^53,2^63,10-byte max,overlong}, splice, duplication, random bytes) plus deep-nesting builders (Any arrays/maps, JSON, nested Any inside an update) up to 60 000 levels; wide updates (up to 300 000 Skip/GC blocks, clients or delete ranges in ascending, descending, interleaved and repeated order); 47 families of valid inputs (wide updates through decode / merge / diff / state-vector extraction, delete sets, snapshots, Any arrays, JSON arrays, state vectors, message streams, awareness updates) executed at 40 000 and 160 000 elements on the shipping worker: four times the input must not cost more than ten times the CPU time (and more than 250 ms); every input is executed in an isolated process with shipping build settings, again under AddressSanitizer, and in an unoptimised build (where only a stack overflow counts), each on a 2 MiB stack; outcomes other than value/error (panic, crash/sanitizer report, >64 MiB committed memory beyond 1 KiB per input byte, >20 s CPU, user CPU time above 1 s + 4 ms per KiB of input in the shipping build (smallest of three measurements; 30x the worst rate measured on the unchanged tree), hang) are violations.  Non-trivial = the decoder returned a value, or the input is a valid payload with at most one local mutation (so it passes the outer framing); distinct = distinct (entry, bytes)".into(),
        assumptions: vec![
            "shipping configuration decides (debug-only overflow assertions are not violations)".into(),
            "memory is what the process commits (RSS high-water growth) or fails to obtain (abort), not the size passed to a fallible try_reserve".into(),
            "hang = no answer within 60 s (confirmed with 180 s on replay)".into(),
        ],
        parts: vec![Box::new(Bytes)],
    }
}

pub const N_ENTRIES: usize = ENTRIES.len();

pub fn entry_name(entry: u8) -> &'static str {
    ENTRIES.get(entry as usize).copied().unwrap_or("?")
}

/// One decoder entry point on untrusted bytes (shared by the isolated worker and the libFuzzer
/// target): true = a value was decoded (and re-encoded), false = the input was rejected.
pub fn run_entry(entry: u8, data: &[u8]) -> bool {
    use yrs::encoding::read::Cursor;
    use yrs::sync::{AwarenessUpdate, MessageReader};
    use yrs::updates::decoder::{Decode, DecoderV1};
    use yrs::updates::encoder::{Encode, Encoder, EncoderV1};
    use yrs::{Any, IdSet, Snapshot, StateVector, StickyIndex, Update};
    fn split(data: &[u8]) -> (&[u8], &[u8]) {
        if data.is_empty() {
            return (data, data);
        }
        let k = (data[0] as usize).min(data.len() - 1);
        (&data[1..1 + k], &data[1 + k..])
    }
    match entry {
        0 => match Update::decode_v1(data) {
            Ok(u) => {
                let _ = u.encode_v1();
                let _ = u.encode_v2();
                let _ = u.state_vector();
                let _ = u.insertions(true);
                true
            }
            Err(_) => false,
        },
        1 => match Update::decode_v2(data) {
            Ok(u) => {
                let _ = u.encode_v1();
                let _ = u.encode_v2();
                true
            }
            Err(_) => false,
        },
        2 => StateVector::decode_v1(data).map(|v| v.encode_v1()).is_ok(),
        3 => StateVector::decode_v2(data).map(|v| v.encode_v2()).is_ok(),
        4 => Snapshot::decode_v1(data).map(|v| v.encode_v1()).is_ok(),
        5 => Snapshot::decode_v2(data).map(|v| v.encode_v2()).is_ok(),
        6 => IdSet::decode_v1(data).map(|v| v.encode_v1()).is_ok(),
        7 => IdSet::decode_v2(data).map(|v| v.encode_v2()).is_ok(),
        8 => StickyIndex::decode_v1(data).map(|v| v.encode_v1()).is_ok(),
        9 => StickyIndex::decode_v2(data).map(|v| v.encode_v2()).is_ok(),
        10 => serde_json::from_slice::<StickyIndex>(data).map(|v| serde_json::to_string(&v)).is_ok(),
        11 => {
            let mut c = Cursor::new(data);
            match Any::decode(&mut c) {
                Ok(a) => {
                    let mut e = EncoderV1::new();
                    a.encode(&mut e);
                    let _ = e.to_vec();
                    let mut s = String::new();
                    a.to_json(&mut s);
                    true
                }
                Err(_) => false,
            }
        }
        12 => match std::str::from_utf8(data) {
            Ok(s) => Any::from_json(s).is_ok(),
            Err(_) => false,
        },
        13 => {
            let mut d = DecoderV1::new(Cursor::new(data));
            let mut ok = true;
            let mut n = 0;
            for m in MessageReader::new(&mut d) {
                match m {
                    Ok(m) => {
                        let _ = m.encode_v1();
                    }
                    Err(_) => {
                        ok = false;
                        break;
                    }
                }
                n += 1;
                if n > 1_000_000 {
                    break;
                }
            }
            ok
        }
        14 => AwarenessUpdate::decode_v1(data).map(|v| v.encode_v1()).is_ok(),
        15 => {
            let (a, b) = split(data);
            yrs::merge_updates_v1([a, b]).is_ok()
        }
        16 => {
            let (a, b) = split(data);
            yrs::merge_updates_v2([a, b]).is_ok()
        }
        17 => {
            let (sv, u) = split(data);
            yrs::diff_updates_v1(u, sv).is_ok()
        }
        18 => {
            let (sv, u) = split(data);
            yrs::diff_updates_v2(u, sv).is_ok()
        }
        19 => yrs::encode_state_vector_from_update_v1(data).is_ok(),
        20 => yrs::encode_state_vector_from_update_v2(data).is_ok(),
        _ => false,
    }
}

