//! C09 part "builder": lib0 v1 update payloads written byte by byte by the harness (independent of
//! `Item::encode`), in the canonical layout the library itself uses, so that
//! `encode_v1(decode_v1(p)) == p` is a first-principles oracle.  Covers every content kind
//! including the ones only foreign Yjs peers produce (Binary, legacy JSON).

use crate::engine::*;
use crate::val::*;
use crate::{ensure, fail};
use proptest::prelude::*;
use serde::{Deserialize, Serialize};
use std::collections::BTreeMap;
use yrs::updates::decoder::Decode;
use yrs::updates::encoder::{Encode, Encoder, EncoderV1};
use yrs::verif_hooks::{update_units, BlockKind};
use yrs::Update;

#[derive(Clone, Debug, Serialize, Deserialize)]
pub enum PContent {
    Deleted(u8),
    Json(Vec<String>),
    Binary(Vec<u8>),
    Str(String),
    Embed(AnyV),
    Format(String, AnyV),
    /// type ref number (0 array, 1 map, 2 text, 3 xml element + name, 4 fragment, 5 hook, 6 xml text, 9 doc... ) and name
    Type(u8, String),
    Any(Vec<AnyV>),
    Doc(String),
}

#[derive(Clone, Debug, Serialize, Deserialize)]
pub enum PParent {
    Named(String),
    Id(u8, u8),
}

#[derive(Clone, Debug, Serialize, Deserialize)]
pub enum PBlock {
    Skip(u8),
    Gc(u8),
    Item { origin: Option<(u8, u8)>, right: Option<(u8, u8)>, parent: PParent, parent_sub: Option<String>, content: PContent },
}

#[derive(Clone, Debug, Serialize, Deserialize)]
pub struct PClient {
    pub client: u8,
    pub clock: u32,
    pub blocks: Vec<PBlock>,
}

#[derive(Clone, Debug, Serialize, Deserialize)]
pub struct Payload {
    pub clients: Vec<PClient>,
    pub ds: Vec<(u8, Vec<(u8, u8)>)>,
}

pub const CLIENTS: [u64; 6] = [1, 2, 127, 128, (1u64 << 32) + 5, (1u64 << 53) - 1];

fn w_var(buf: &mut Vec<u8>, mut n: u64) {
    while n >= 128 {
        buf.push((n as u8 & 127) | 128);
        n >>= 7;
    }
    buf.push(n as u8);
}

fn w_str(buf: &mut Vec<u8>, s: &str) {
    w_var(buf, s.len() as u64);
    buf.extend_from_slice(s.as_bytes());
}

fn w_id(buf: &mut Vec<u8>, id: (u8, u8)) {
    w_var(buf, CLIENTS[id.0 as usize % CLIENTS.len()]);
    w_var(buf, id.1 as u64);
}

fn json_text(a: &AnyV) -> String {
    let mut s = String::new();
    a.to_any().to_json(&mut s);
    s
}

fn any_bytes(a: &AnyV) -> Vec<u8> {
    let mut e = EncoderV1::new();
    a.to_any().encode(&mut e);
    e.to_vec()
}

fn content_len(c: &PContent) -> u32 {
    match c {
        PContent::Deleted(n) => *n as u32,
        PContent::Json(v) => v.len() as u32,
        PContent::Str(s) => s.encode_utf16().count() as u32,
        PContent::Any(v) => v.len() as u32,
        _ => 1,
    }
}

fn block_len(b: &PBlock) -> u32 {
    match b {
        PBlock::Skip(n) | PBlock::Gc(n) => *n as u32,
        PBlock::Item { content, .. } => content_len(content),
    }
}

/// one described block: (client, clock, len, kind, dependency ids)
pub type Described = (u64, u32, u32, u8, Vec<(u64, u32)>);

/// Writes the payload; returns bytes and the logical description of its blocks.
pub fn build(p: &Payload) -> (Vec<u8>, Vec<Described>) {
    let mut buf = Vec::new();
    let mut desc = Vec::new();
    w_var(&mut buf, p.clients.len() as u64);
    for c in p.clients.iter() {
        let client = CLIENTS[c.client as usize % CLIENTS.len()];
        w_var(&mut buf, c.blocks.len() as u64);
        w_var(&mut buf, client);
        w_var(&mut buf, c.clock as u64);
        let mut clock = c.clock;
        for b in c.blocks.iter() {
            let len = block_len(b);
            match b {
                PBlock::Skip(n) => {
                    buf.push(10);
                    w_var(&mut buf, *n as u64);
                    desc.push((client, clock, len, 2, vec![]));
                }
                PBlock::Gc(n) => {
                    buf.push(0);
                    w_var(&mut buf, *n as u64);
                    desc.push((client, clock, len, 1, vec![]));
                }
                PBlock::Item { origin, right, parent, parent_sub, content } => {
                    let refn: u8 = match content {
                        PContent::Deleted(_) => 1,
                        PContent::Json(_) => 2,
                        PContent::Binary(_) => 3,
                        PContent::Str(_) => 4,
                        PContent::Embed(_) => 5,
                        PContent::Format(_, _) => 6,
                        PContent::Type(_, _) => 7,
                        PContent::Any(_) => 8,
                        PContent::Doc(_) => 9,
                    };
                    let no_origins = origin.is_none() && right.is_none();
                    let mut info = refn;
                    if origin.is_some() {
                        info |= 128;
                    }
                    if right.is_some() {
                        info |= 64;
                    }
                    if no_origins && parent_sub.is_some() {
                        info |= 32;
                    }
                    buf.push(info);
                    let mut deps = Vec::new();
                    if let Some(o) = origin {
                        w_id(&mut buf, *o);
                        deps.push((CLIENTS[o.0 as usize % CLIENTS.len()], o.1 as u32));
                    }
                    if let Some(r) = right {
                        w_id(&mut buf, *r);
                        deps.push((CLIENTS[r.0 as usize % CLIENTS.len()], r.1 as u32));
                    }
                    if no_origins {
                        match parent {
                            PParent::Named(n) => {
                                w_var(&mut buf, 1);
                                w_str(&mut buf, n);
                            }
                            PParent::Id(c, k) => {
                                w_var(&mut buf, 0);
                                w_id(&mut buf, (*c, *k));
                                deps.push((CLIENTS[*c as usize % CLIENTS.len()], *k as u32));
                            }
                        }
                        if let Some(s) = parent_sub {
                            w_str(&mut buf, s);
                        }
                    }
                    match content {
                        PContent::Deleted(n) => w_var(&mut buf, *n as u64),
                        PContent::Json(v) => {
                            w_var(&mut buf, v.len() as u64);
                            for s in v {
                                w_str(&mut buf, s);
                            }
                        }
                        PContent::Binary(b) => {
                            w_var(&mut buf, b.len() as u64);
                            buf.extend_from_slice(b);
                        }
                        PContent::Str(s) => w_str(&mut buf, s),
                        PContent::Embed(a) => w_str(&mut buf, &json_text(a)),
                        PContent::Format(k, a) => {
                            w_str(&mut buf, k);
                            w_str(&mut buf, &json_text(a));
                        }
                        PContent::Type(t, name) => {
                            buf.push(*t);
                            if *t == 3 {
                                w_str(&mut buf, name);
                            }
                        }
                        PContent::Any(v) => {
                            w_var(&mut buf, v.len() as u64);
                            for a in v {
                                buf.extend_from_slice(&any_bytes(a));
                            }
                        }
                        PContent::Doc(guid) => {
                            w_str(&mut buf, guid);
                            let opts: AnyV = AnyV::Map(
                                [
                                    ("gc".to_string(), AnyV::Bool(true)),
                                    ("encoding".to_string(), AnyV::Int(1)),
                                    ("autoLoad".to_string(), AnyV::Bool(false)),
                                    ("shouldLoad".to_string(), AnyV::Bool(true)),
                                ]
                                .into_iter()
                                .collect::<BTreeMap<_, _>>(),
                            );
                            buf.extend_from_slice(&any_bytes(&opts));
                        }
                    }
                    desc.push((client, clock, len, 0, deps));
                }
            }
            clock += len;
        }
    }
    // delete set: clients ascending, ranges ascending and separated
    w_var(&mut buf, p.ds.len() as u64);
    for (c, ranges) in p.ds.iter() {
        w_var(&mut buf, CLIENTS[*c as usize % CLIENTS.len()]);
        w_var(&mut buf, ranges.len() as u64);
        let mut clock = 0u64;
        for (gap, len) in ranges {
            clock += *gap as u64 + 1;
            w_var(&mut buf, clock);
            w_var(&mut buf, *len as u64 + 1);
            clock += *len as u64 + 1;
        }
    }
    (buf, desc)
}

fn pcontent() -> impl Strategy<Value = PContent> {
    prop_oneof![
        1 => (1u8..5).prop_map(PContent::Deleted),
        2 => prop::collection::vec(prop_oneof![Just("1".to_string()), Just("\"a\"".to_string()), Just("{\"k\":[1,2]}".to_string()), Just("null".to_string()), Just("undefined".to_string())], 1..4).prop_map(PContent::Json),
        2 => prop::collection::vec(any::<u8>(), 0..6).prop_map(PContent::Binary),
        4 => text_string(5).prop_map(PContent::Str),
        2 => any_value(true, 2).prop_map(|a| PContent::Embed(single_key_maps(a))),
        2 => ("[a-c]", prop_oneof![Just(AnyV::Null), Just(AnyV::Bool(true)), Just(AnyV::Str("red".into()))]).prop_map(|(k, v)| PContent::Format(k, v)),
        3 => (prop_oneof![Just(0u8), Just(1), Just(2), Just(3), Just(4), Just(6)], "[a-zа-я]{1,4}").prop_map(|(t, n)| PContent::Type(t, n)),
        3 => prop::collection::vec(any_value(false, 2).prop_map(single_key_maps), 1..4).prop_map(PContent::Any),
        1 => "[a-f0-9]{4}".prop_map(PContent::Doc),
    ]
}

fn pblock() -> impl Strategy<Value = PBlock> {
    prop_oneof![
        1 => (1u8..5).prop_map(PBlock::Skip),
        1 => (1u8..5).prop_map(PBlock::Gc),
        8 => (
            prop::option::of((0u8..6, 0u8..12)),
            prop::option::of((0u8..6, 0u8..12)),
            prop_oneof![2 => "[a-zа-я]{1,4}".prop_map(PParent::Named), 1 => (0u8..6, 0u8..12).prop_map(|(c, k)| PParent::Id(c, k))],
            prop::option::of("[a-zа-я]{1,3}"),
            pcontent()
        )
            .prop_map(|(origin, right, parent, parent_sub, content)| PBlock::Item { origin, right, parent, parent_sub, content }),
    ]
}

/// maps keep at most one entry: multi-key maps are written in HashMap iteration order, which would
/// defeat the byte-equality oracle
fn single_key_maps(a: AnyV) -> AnyV {
    match a {
        AnyV::Map(m) => AnyV::Map(m.into_iter().take(1).map(|(k, v)| (k, single_key_maps(v))).collect()),
        AnyV::Arr(v) => AnyV::Arr(v.into_iter().map(single_key_maps).collect()),
        other => other,
    }
}

pub fn payload_strategy() -> BoxedStrategy<Payload> {
    (
        prop::collection::btree_map(0u8..6, (prop_oneof![3 => Just(0u32), 2 => 0u32..300, 1 => Just(u32::MAX / 4)], prop::collection::vec(pblock(), 1..6)), 0..4),
        prop::collection::btree_map(0u8..6, prop::collection::vec((0u8..5, 0u8..5), 1..4), 0..3),
    )
        .prop_map(|(clients, ds)| {
            // canonical: clients descending, no leading Skip
            let mut cs: Vec<PClient> = clients
                .into_iter()
                .map(|(client, (clock, mut blocks))| {
                    while matches!(blocks.first(), Some(PBlock::Skip(_))) {
                        blocks.remove(0);
                    }
                    PClient { client, clock, blocks }
                })
                .filter(|c| !c.blocks.is_empty())
                .collect();
            cs.sort_by(|a, b| CLIENTS[b.client as usize % 6].cmp(&CLIENTS[a.client as usize % 6]));
            let mut ds: Vec<(u8, Vec<(u8, u8)>)> = ds.into_iter().collect();
            ds.sort_by(|a, b| CLIENTS[a.0 as usize % 6].cmp(&CLIENTS[b.0 as usize % 6]));
            Payload { clients: cs, ds }
        })
        .boxed()
}

/// The canonical form the strategy produces (distinct clients in descending order without a
/// leading Skip, delete set clients distinct and ascending); applied again by the check so that a
/// case mutated by the coverage-guided campaign is still a payload the byte-equality oracle applies to.
pub fn canonical(p: &Payload) -> Payload {
    let eff = |c: u8| CLIENTS[c as usize % CLIENTS.len()];
    let mut seen = std::collections::BTreeSet::new();
    let mut cs: Vec<PClient> = Vec::new();
    for c in p.clients.iter() {
        if !seen.insert(eff(c.client)) {
            continue;
        }
        let mut c = c.clone();
        // (a block covers at least one clock)
        for b in c.blocks.iter_mut() {
            match b {
                PBlock::Skip(n) | PBlock::Gc(n) => *n = (*n).max(1),
                PBlock::Item { content: PContent::Deleted(n), .. } => *n = (*n).max(1),
                // (type references the builder knows: array, map, text, XML element, fragment, XML text)
                PBlock::Item { content: PContent::Type(t, _), .. } => *t = [0u8, 1, 2, 3, 4, 6][*t as usize % 6],
                _ => {}
            }
        }
        while matches!(c.blocks.first(), Some(PBlock::Skip(_))) {
            c.blocks.remove(0);
        }
        if !c.blocks.is_empty() {
            cs.push(c);
        }
    }
    cs.sort_by(|a, b| eff(b.client).cmp(&eff(a.client)));
    let mut seen = std::collections::BTreeSet::new();
    let mut ds: Vec<(u8, Vec<(u8, u8)>)> = p.ds.iter().filter(|(c, r)| !r.is_empty() && seen.insert(eff(*c))).cloned().collect();
    ds.sort_by(|a, b| eff(a.0).cmp(&eff(b.0)));
    Payload { clients: cs, ds }
}

pub struct Builder;

fn content_tag(c: &PContent) -> &'static str {
    match c {
        PContent::Deleted(_) => "deleted",
        PContent::Json(_) => "json",
        PContent::Binary(_) => "binary",
        PContent::Str(_) => "string",
        PContent::Embed(_) => "embed",
        PContent::Format(_, _) => "format",
        PContent::Type(_, _) => "type",
        PContent::Any(_) => "any",
        PContent::Doc(_) => "doc",
    }
}

impl Prop for Builder {
    type Case = Payload;
    fn name(&self) -> &'static str {
        "builder"
    }
    fn cases(&self, tier: Tier) -> u64 {
        tier.pick(500_000, 4_000_000)
    }
    fn strategy(&self, _tier: Tier) -> BoxedStrategy<Payload> {
        payload_strategy()
    }
    fn check(&self, p: &Payload, st: &mut CaseStats) -> Result<(), Fail> {
        let p = &canonical(p);
        let (bytes, desc) = build(p);
        // which content kinds are present (for signatures: one root cause per content kind)
        let mut kinds: Vec<&'static str> = Vec::new();
        for c in p.clients.iter() {
            for b in c.blocks.iter() {
                if let PBlock::Item { content, .. } = b {
                    let t = content_tag(content);
                    if !kinds.contains(&t) {
                        kinds.push(t);
                    }
                    st.hit(t);
                }
            }
        }
        kinds.sort();
        let rare: Vec<&&str> = kinds.iter().filter(|k| ["json", "binary", "doc", "deleted"].contains(*k)).collect();
        let kind_sig = if rare.len() == 1 { rare[0].to_string() } else if rare.is_empty() { "common".to_string() } else { "mixed".to_string() };
        let u = match Update::decode_v1(&bytes) {
            Ok(u) => u,
            Err(e) => fail!(format!("c09/builder/v1-undecodable/content={}", kind_sig), "a syntactically valid v1 payload does not decode: {} ({:?})", e, bytes),
        };
        // logical description
        let units = update_units(&u);
        let mut got: Vec<Described> = units
            .iter()
            .map(|x| {
                (
                    x.id.client.get(),
                    x.id.clock,
                    x.len,
                    match x.kind {
                        BlockKind::Item => 0,
                        BlockKind::GC => 1,
                        BlockKind::Skip => 2,
                    },
                    x.deps.iter().map(|d| (d.client.get(), d.clock)).collect(),
                )
            })
            .collect();
        let mut want = desc.clone();
        got.sort();
        want.sort();
        ensure!(
            got == want,
            format!("c09/builder/description-differs/content={}", kind_sig),
            "decoded blocks (client, clock, len, kind, dependencies) {:?} differ from what was written {:?}",
            got,
            want
        );
        // canonical re-encoding (sub-document options are a multi-key map: compare lengths only)
        let has_doc = kinds.contains(&"doc");
        let e1 = u.encode_v1();
        if has_doc {
            ensure!(e1.len() == bytes.len(), format!("c09/builder/reencode-v1-differs/content={}", kind_sig), "encode_v1(decode_v1(p)) has another length than p");
            return Ok(());
        }
        ensure!(e1 == bytes, format!("c09/builder/reencode-v1-differs/content={}", kind_sig), "encode_v1(decode_v1(p)) != p: {:?} vs {:?}", e1, bytes);
        // through v2 and back
        let e2 = u.encode_v2();
        let u2 = match Update::decode_v2(&e2) {
            Ok(u) => u,
            Err(e) => fail!(format!("c09/builder/v2-undecodable/content={}", kind_sig), "the v2 encoding of the decoded payload does not decode: {}", e),
        };
        let back = u2.encode_v1();
        ensure!(back == bytes, format!("c09/builder/v1-v2-v1-differs/content={}", kind_sig), "v1 -> v2 -> v1 changed the payload: {:?} vs {:?}", back, bytes);
        ensure!(u2.encode_v2() == e2, format!("c09/builder/v2-no-fixpoint/content={}", kind_sig), "v2 re-encoding is not a fixpoint");
        // delete set survives
        let mut n_ranges = 0;
        for (_, r) in u.delete_set().iter() {
            n_ranges += r.iter().count();
        }
        ensure!(n_ranges == p.ds.iter().map(|(_, r)| r.len()).sum::<usize>(), "c09/builder/delete-set", "delete set has {} ranges after decoding", n_ranges);
        if desc.len() >= 2 {
            st.nt();
        }
        Ok(())
    }
}
