//! C02 — causal-gap buffer: nothing lost, nothing stuck.
//!
//! Oracle: a unit-level dependency model fed by the decoded payloads (hook `update_units`):
//! `I` = least fixpoint of "all dependencies integrated" over everything delivered so far.
//! After every delivery `has_missing_updates()` must equal "some delivered unit is outside of I or
//! some delivered deletion targets an id outside of I"; the state vector may never over-claim and
//! never decrease; at the end everything is integrated.  Relay clause: a full-state export of the
//! gapped receiver given to a fresh replica, followed by the withheld updates, completes it.

use crate::dump::*;
use crate::engine::*;
use crate::ops::*;
use crate::props::c01::{plan, sched_strategy, Delivery, Sched};
use crate::world::*;
use crate::{ensure, fail};
use proptest::prelude::*;
use serde::{Deserialize, Serialize};
use std::collections::{BTreeMap, BTreeSet};
use yrs::updates::decoder::Decode;
use yrs::verif_hooks::{update_units, BlockKind};
use yrs::{ReadTxn, StateVector, Transact, Update};

#[derive(Clone, Debug, Serialize, Deserialize)]
pub struct Case {
    pub history: History,
    pub sched: Sched,
    pub observer: Cfg,
    /// after which deliveries (fractions) a relay through the gapped receiver is attempted
    pub relay_at: Vec<u16>,
    pub relay_v2: bool,
}

#[derive(Default)]
pub struct GapModel {
    /// integrated clocks per client
    pub integ: BTreeMap<u64, BTreeSet<u32>>,
    /// delivered units not yet integrated: (client, clock, len, deps)
    pub waiting: Vec<(u64, u32, u32, Vec<(u64, u32)>)>,
    /// delivered deletions not yet applicable
    pub del_waiting: Vec<(u64, u32)>,
}

impl GapModel {
    pub fn has(&self, c: u64, k: u32) -> bool {
        self.integ.get(&c).map(|s| s.contains(&k)).unwrap_or(false)
    }

    pub fn deliver(&mut self, u: &Update) {
        for unit in update_units(u) {
            if unit.kind == BlockKind::Skip {
                continue;
            }
            let deps: Vec<(u64, u32)> = unit.deps.iter().map(|d| (d.client.get(), d.clock)).collect();
            self.waiting.push((unit.id.client.get(), unit.id.clock, unit.len, deps));
        }
        for (client, ranges) in u.delete_set().iter() {
            for r in ranges.iter() {
                for k in r.clone() {
                    self.del_waiting.push((client.get(), k));
                }
            }
        }
        self.fixpoint();
    }

    pub fn fixpoint(&mut self) {
        loop {
            let mut progressed = false;
            let mut i = 0;
            while i < self.waiting.len() {
                let (c, k, len, deps) = self.waiting[i].clone();
                let already = (k..k + len).all(|x| self.has(c, x));
                let own_range = |d: &(u64, u32)| d.0 == c && d.1 >= k && d.1 < k + len;
                if already || deps.iter().all(|d| self.has(d.0, d.1) || own_range(d)) {
                    let e = self.integ.entry(c).or_default();
                    for x in k..k + len {
                        e.insert(x);
                    }
                    self.waiting.swap_remove(i);
                    progressed = true;
                } else {
                    i += 1;
                }
            }
            if !progressed {
                break;
            }
        }
        let integ = &self.integ;
        self.del_waiting.retain(|(c, k)| !integ.get(c).map(|s| s.contains(k)).unwrap_or(false));
    }

    pub fn missing(&self) -> bool {
        !self.waiting.is_empty() || !self.del_waiting.is_empty()
    }

    /// first clock of the client that is not integrated
    pub fn frontier(&self, c: u64) -> u32 {
        let mut k = 0;
        if let Some(s) = self.integ.get(&c) {
            while s.contains(&k) {
                k += 1;
            }
        }
        k
    }
}

fn payload(w: &World, to: &Replica, d: &Delivery) -> Result<Vec<u8>, Fail> {
    let mut bytes = if d.idxs.len() == 1 {
        if d.v2 {
            w.updates[d.idxs[0]].v2.clone()
        } else {
            w.updates[d.idxs[0]].v1.clone()
        }
    } else {
        match w.merged_bytes(&d.idxs, d.v2) {
            Ok(b) => b,
            Err(e) => fail!("c02/transport/merge-failed", "merging updates {:?}: {}", d.idxs, e),
        }
    };
    if d.diff {
        use yrs::updates::encoder::Encode;
        let r = if d.v2 { yrs::diff_updates_v2(&bytes, &to.sv().encode_v2()) } else { yrs::diff_updates_v1(&bytes, &to.sv().encode_v1()) };
        match r {
            Ok(b) => bytes = b,
            Err(e) => fail!("c02/transport/diff-failed", "diff_updates of {:?}: {}", d.idxs, e),
        }
    }
    Ok(bytes)
}

pub fn decode(bytes: &[u8], v2: bool) -> Result<Update, Fail> {
    let r = if v2 { Update::decode_v2(bytes) } else { Update::decode_v1(bytes) };
    r.map_err(|e| Fail::new("c02/transport/decode-failed", format!("payload does not decode (v2={}): {}", v2, e)))
}

pub struct Gap;

impl Prop for Gap {
    type Case = Case;
    fn name(&self) -> &'static str {
        "gap"
    }
    fn cases(&self, tier: Tier) -> u64 {
        tier.pick(1_000_000, 5_000_000)
    }
    fn strategy(&self, tier: Tier) -> BoxedStrategy<Case> {
        let mut shape = HistoryShape::default_for(tier);
        shape.steps = 4..=tier.pick(18, 30);
        shape.w_sync = 3;
        shape.w_merge = 0;
        shape.w_dup = 0;
        (
            history_strategy(Profile::all(), shape, false),
            sched_strategy(),
            cfgs_strategy(1..=1, false),
            prop::collection::vec(any::<u16>(), 0..3),
            any::<bool>(),
        )
            .prop_map(|(history, sched, mut obs, relay_at, relay_v2)| {
                obs[0].client = 7000;
                Case { history, sched, observer: obs.remove(0), relay_at, relay_v2 }
            })
            .boxed()
    }

    fn check(&self, case: &Case, st: &mut CaseStats) -> Result<(), Fail> {
        let mut w = World::new(&case.history.cfgs);
        for (i, s) in case.history.steps.iter().enumerate() {
            if let Err(e) = w.step(s) {
                fail!("c02/transport/apply-failed", "history step {} {:?}: {}", i, s, e);
            }
        }
        let n_up = w.updates.len();
        if n_up < 2 {
            return Ok(());
        }
        // reference
        let reference = Replica::new(Cfg { client: 9999, utf16: false, skip_gc: false, cleanup: false });
        for u in w.updates.iter() {
            if let Err(e) = reference.apply_v1(&u.v1) {
                fail!("c02/transport/apply-failed", "reference replica: {}", e);
            }
        }
        let ref_dump = reference.dump();
        let ref_sv = sv_to_vec(&reference.sv());

        let all: Vec<usize> = (0..n_up).collect();
        let p = plan(&case.sched, &all);
        let obs = Replica::new(case.observer.clone());
        let mut model = GapModel::default();
        let mut given: BTreeSet<usize> = BTreeSet::new();
        let mut prev_sv: BTreeMap<u64, u32> = BTreeMap::new();
        let mut had_stash = false;
        let mut resolved = false;
        let relay_points: BTreeSet<usize> = case.relay_at.iter().map(|f| pick(*f, p.len().max(1))).collect();

        for (di, d) in p.iter().enumerate() {
            let bytes = payload(&w, &obs, d)?;
            let upd = decode(&bytes, d.v2)?;
            model.deliver(&upd);
            let upd = decode(&bytes, d.v2)?;
            if let Err(e) = obs.doc.transact_mut().apply_update(upd) {
                fail!("c02/transport/apply-failed", "delivery {} {:?}: {}", di, d, e);
            }
            obs.drain();
            given.extend(d.idxs.iter().copied());

            let real_missing = obs.has_missing();
            let model_missing = model.missing();
            if model_missing {
                had_stash = true;
                st.hit("deliveries_with_stash");
                if model.waiting.iter().any(|(c, _, _, deps)| deps.iter().any(|d| d.0 != *c)) {
                    st.hit("cross_client_dependency_waiting");
                }
                if !model.del_waiting.is_empty() {
                    st.hit("delete_before_insert");
                }
            } else if had_stash && !resolved {
                resolved = true;
                st.hit("stash_resolved");
            }
            if real_missing != model_missing {
                if real_missing {
                    fail!(
                        "c02/stuck-pending",
                        "after delivery {} ({:?}) the replica reports missing updates but every delivered block and deletion has its dependencies (model: nothing waiting)",
                        di,
                        d.idxs
                    );
                } else {
                    fail!(
                        "c02/lost-pending",
                        "after delivery {} ({:?}) the replica reports nothing missing but the model still waits for {:?} / deletions {:?}",
                        di,
                        d.idxs,
                        model.waiting.iter().take(3).collect::<Vec<_>>(),
                        model.del_waiting.iter().take(3).collect::<Vec<_>>()
                    );
                }
            }
            // state vector: no over-claim, monotone
            let sv: BTreeMap<u64, u32> = sv_to_vec(&obs.sv()).into_iter().collect();
            for (c, k) in sv.iter() {
                let bound = model.frontier(*c);
                ensure!(
                    *k <= bound,
                    "c02/state-vector/over-claim",
                    "after delivery {}: state vector claims {}:{} but clock {} of that client was never integrable",
                    di,
                    c,
                    k,
                    bound
                );
            }
            for (c, k) in prev_sv.iter() {
                ensure!(
                    sv.get(c).copied().unwrap_or(0) >= *k,
                    "c02/state-vector/decreased",
                    "after delivery {}: state vector of client {} went from {} to {}",
                    di,
                    c,
                    k,
                    sv.get(c).copied().unwrap_or(0)
                );
            }
            // hook-free liveness: causally closed knowledge => complete
            if w.causally_closed(&given) {
                ensure!(
                    !real_missing,
                    "c02/stuck-pending",
                    "after delivery {}: received set {:?} is causally closed but the replica reports missing updates",
                    di,
                    given
                );
                for (c, k) in sv.iter() {
                    ensure!(
                        *k == model.frontier(*c),
                        "c02/state-vector/behind",
                        "after delivery {}: causally closed, state vector {}:{} but {} clocks were delivered",
                        di,
                        c,
                        k,
                        model.frontier(*c)
                    );
                }
            }
            prev_sv = sv;

            // relay clause
            if relay_points.contains(&di) && model_missing && di + 1 < p.len() {
                st.hit("relay_with_stash");
                let export = {
                    let txn = obs.doc.transact();
                    if case.relay_v2 {
                        txn.encode_state_as_update_v2(&StateVector::default())
                    } else {
                        txn.encode_state_as_update_v1(&StateVector::default())
                    }
                };
                let f = Replica::new(Cfg { client: 7100, utf16: false, skip_gc: false, cleanup: false });
                if let Err(e) = f.apply(&export, case.relay_v2) {
                    fail!("c02/relay/export-undecodable", "full-state export of the gapped replica (v2={}) cannot be applied: {}", case.relay_v2, e);
                }
                for i in 0..n_up {
                    if !given.contains(&i) {
                        if let Err(e) = f.apply_v1(&w.updates[i].v1) {
                            fail!("c02/transport/apply-failed", "relay target, update {}: {}", i, e);
                        }
                    }
                }
                ensure!(
                    !f.has_missing(),
                    "c02/relay/lost-stash",
                    "a fresh replica fed by the gapped replica's full state plus the withheld updates still misses updates"
                );
                let fd = f.dump();
                if fd != ref_dump {
                    fail!("c02/relay/lost-content", "relay through the gapped replica lost content: {}", first_diff(&fd, &ref_dump).unwrap_or_default());
                }
                ensure!(sv_to_vec(&f.sv()) == ref_sv, "c02/relay/state-vector", "relay target state vector {:?} != {:?}", sv_to_vec(&f.sv()), ref_sv);
            }
        }
        // everything delivered
        ensure!(!obs.has_missing(), "c02/stuck-pending", "everything was delivered but the replica still reports missing updates");
        ensure!(sv_to_vec(&obs.sv()) == ref_sv, "c02/state-vector/final", "final state vector {:?} != join {:?}", sv_to_vec(&obs.sv()), ref_sv);
        let d = obs.dump();
        if d != ref_dump {
            fail!("c02/lost-content", "final content differs from the reference: {}", first_diff(&d, &ref_dump).unwrap_or_default());
        }
        if had_stash {
            st.nt();
        }
        Ok(())
    }
}

pub fn property() -> Property {
    Property {
        id: "C02",
        level: "exploration",
        rule: "histories as in C01 (2..3/4 authors, 4..18/30 steps) whose complete update set is delivered to one passive receiver under a generated schedule (permutation incl. same-sender reordering, merge groups, diff_updates, v1/v2), observed after EVERY delivery against a unit-level dependency model built from the decoded payloads; at generated points the gapped receiver's full-state export (v1 or v2) is relayed to a fresh replica that then gets only the withheld updates.  Non-trivial = the receiver really held a stash at some point (model: a delivered block or deletion lacked a dependency); distinct = distinct generated case".into(),
        assumptions: vec![
            "dependency ground truth (origin, right origin, parent, quoted ids) is read from the decoded update through hook update_units; C09 tests the decoder independently".into(),
            "blocks queued behind a block of the same client that still lacks a dependency may wait (they causally depend on it through the author's state vector)".into(),
        ],
        parts: vec![Box::new(Part(Gap))],
    }
}
