//! C09 — wire formats round-trip; v1 and v2 carry the same information; Yjs payloads survive
//! re-encoding.

use crate::dump::*;
use crate::engine::*;
use crate::ops::*;
use crate::val::*;
use crate::world::*;
use crate::{ensure, fail};
use proptest::prelude::*;
use serde::{Deserialize, Serialize};
use std::collections::{BTreeMap, HashMap};
use std::sync::Arc;
use yrs::encoding::read::{Cursor, Read};
use yrs::encoding::write::Write;
use yrs::sync::awareness::AwarenessUpdateEntry;
use yrs::sync::{AwarenessUpdate, Message, MessageReader, SyncMessage};
use yrs::updates::decoder::{Decode, Decoder, DecoderV1};
use yrs::updates::encoder::{Encode, Encoder, EncoderV1};
use yrs::{Any, Assoc, ClientID, IdSet, IndexScope, ReadTxn, Snapshot, StateVector, StickyIndex, Transact, Update, ID};

// ------------------------------------------------------------------------------------------
// part 1: value types
// ------------------------------------------------------------------------------------------

#[derive(Clone, Debug, Serialize, Deserialize)]
pub enum MsgSpec {
    Step1(Vec<(u64, u32)>),
    Step2(Vec<u8>),
    Update(Vec<u8>),
    Auth(Option<String>),
    AwarenessQuery,
    Awareness(Vec<(u64, u32, String)>),
    Custom(u8, Vec<u8>),
}

#[derive(Clone, Debug, Serialize, Deserialize)]
pub struct ValuesCase {
    pub any: AnyV,
    pub sv: Vec<(u64, u32)>,
    pub ds: Vec<(u64, u32, u32)>,
    /// sticky index: scope kind 0 relative, 1 nested, 2 root; id; root name; assoc
    pub sticky: (u8, u64, u32, String, bool),
    pub msgs: Vec<MsgSpec>,
}

fn client_id() -> impl Strategy<Value = u64> {
    prop_oneof![
        4 => 0u64..6,
        1 => Just((1u64 << 53) - 1),
        1 => Just(1u64 << 32),
        1 => Just((1u64 << 32) - 1),
        2 => 0u64..(1u64 << 53),
    ]
}

fn clock() -> impl Strategy<Value = u32> {
    prop_oneof![4 => 0u32..40, 1 => Just(127u32), 1 => Just(128), 1 => Just(16384), 1 => Just(u32::MAX / 2), 1 => any::<u32>().prop_map(|x| x / 2)]
}

fn msg_spec() -> impl Strategy<Value = MsgSpec> {
    prop_oneof![
        2 => prop::collection::vec((client_id(), clock()), 0..4).prop_map(MsgSpec::Step1),
        2 => prop::collection::vec(any::<u8>(), 0..12).prop_map(MsgSpec::Step2),
        2 => prop::collection::vec(any::<u8>(), 0..12).prop_map(MsgSpec::Update),
        1 => prop::option::of("[a-z ]{0,8}").prop_map(MsgSpec::Auth),
        1 => Just(MsgSpec::AwarenessQuery),
        2 => prop::collection::vec((client_id(), clock(), prop_oneof![Just("null".to_string()), Just("{}".to_string()), "[a-z]{0,6}".prop_map(|s| format!("{{\"name\":\"{}\"}}", s))]), 0..4).prop_map(MsgSpec::Awareness),
        3 => (prop_oneof![4u8..=255, Just(4u8), Just(127), Just(128), Just(255)], prop::collection::vec(any::<u8>(), 0..8)).prop_map(|(t, d)| MsgSpec::Custom(t, d)),
    ]
}

fn to_sv(v: &[(u64, u32)]) -> StateVector {
    let mut sv = StateVector::default();
    for (c, k) in v {
        sv.set_max(ClientID::new(*c & ((1 << 53) - 1)), *k);
    }
    sv
}

fn to_msg(m: &MsgSpec) -> Message {
    match m {
        MsgSpec::Step1(sv) => Message::Sync(SyncMessage::SyncStep1(to_sv(sv))),
        MsgSpec::Step2(b) => Message::Sync(SyncMessage::SyncStep2(b.clone())),
        MsgSpec::Update(b) => Message::Sync(SyncMessage::Update(b.clone())),
        MsgSpec::Auth(r) => Message::Auth(r.clone()),
        MsgSpec::AwarenessQuery => Message::AwarenessQuery,
        MsgSpec::Awareness(v) => {
            let mut clients = HashMap::new();
            for (c, k, j) in v {
                clients.insert(ClientID::new(*c & ((1 << 53) - 1)), AwarenessUpdateEntry { clock: *k, json: Arc::from(j.as_str()) });
            }
            Message::Awareness(AwarenessUpdate { clients })
        }
        // (tags 0..3 belong to the protocol itself)
        MsgSpec::Custom(t, d) => Message::Custom((*t).max(4), d.clone()),
    }
}

pub struct Values;

fn any_bytes(a: &Any) -> Vec<u8> {
    let mut e = EncoderV1::new();
    a.encode(&mut e);
    e.to_vec()
}

impl Prop for Values {
    type Case = ValuesCase;
    fn name(&self) -> &'static str {
        "values"
    }
    fn cases(&self, tier: Tier) -> u64 {
        tier.pick(500_000, 4_000_000)
    }
    fn strategy(&self, _tier: Tier) -> BoxedStrategy<ValuesCase> {
        (
            any_value(false, 5),
            prop::collection::vec((client_id(), clock()), 0..5),
            prop::collection::vec((client_id(), clock(), 1u32..40), 0..6),
            (0u8..3, client_id(), clock(), "[a-zа-я]{0,5}", any::<bool>()),
            prop::collection::vec(msg_spec(), 0..4),
        )
            .prop_map(|(any, sv, ds, sticky, msgs)| ValuesCase { any, sv, ds, sticky, msgs })
            .boxed()
    }

    fn check(&self, case: &ValuesCase, st: &mut CaseStats) -> Result<(), Fail> {
        // Any: binary (same in v1 and v2 streams) and JSON
        let a = case.any.to_any();
        let bytes = any_bytes(&a);
        let mut cur = Cursor::new(&bytes);
        let back = Any::decode(&mut cur);
        match &back {
            Ok(b) => {
                ensure!(AnyV::from_any(b).norm() == case.any.norm(), "c09/any/binary-roundtrip", "Any {:?} decodes as {:?}", case.any, AnyV::from_any(b));
                // (byte equality is not demanded: a map is written in HashMap iteration order)
                ensure!(any_bytes(b).len() == bytes.len(), "c09/any/reencode", "re-encoding the decoded Any gives a different number of bytes");
            }
            Err(e) => fail!("c09/any/binary-roundtrip", "Any {:?} cannot be decoded again: {}", case.any, e),
        }
        // Any inside of the v2 encoder (update content goes through write_any)
        {
            let mut e2 = yrs::updates::encoder::EncoderV2::new();
            e2.write_any(&a);
            let b2 = e2.to_vec();
            let mut d2 = yrs::updates::decoder::DecoderV2::new(Cursor::new(&b2)).map_err(|e| Fail::new("c09/any/v2", format!("{}", e)))?;
            use yrs::updates::decoder::Decoder;
            match d2.read_any() {
                Ok(b) => ensure!(AnyV::from_any(&b).norm() == case.any.norm(), "c09/any/v2-roundtrip", "Any {:?} decodes (v2) as {:?}", case.any, AnyV::from_any(&b)),
                Err(e) => fail!("c09/any/v2-roundtrip", "Any {:?} cannot be decoded (v2): {}", case.any, e),
            }
        }
        let js = case.any.json_image();
        if js == case.any.norm_nan() || true {
            let mut s = String::new();
            a.to_json(&mut s);
            match Any::from_json(&s) {
                Ok(b) => ensure!(
                    AnyV::from_any(&b).json_image().norm().approx_eq(&js.norm()),
                    "c09/any/json-roundtrip",
                    "Any {:?} -> JSON {} -> {:?} (expected the JSON image {:?})",
                    case.any,
                    s,
                    AnyV::from_any(&b),
                    js
                ),
                Err(e) => fail!("c09/any/json-roundtrip", "JSON text {} produced by to_json cannot be parsed: {}", s, e),
            }
        }
        if matches!(case.any, AnyV::Arr(_) | AnyV::Map(_)) {
            st.nt();
        }
        // StateVector
        let sv = to_sv(&case.sv);
        for v2 in [false, true] {
            let b = if v2 { sv.encode_v2() } else { sv.encode_v1() };
            let d = if v2 { StateVector::decode_v2(&b) } else { StateVector::decode_v1(&b) };
            ensure!(d.as_ref().ok() == Some(&sv), "c09/state-vector/roundtrip", "StateVector {:?} (v2={}) -> {:?}", sv, v2, d);
        }
        // delete set + snapshot
        let mut ds = IdSet::new();
        for (c, k, l) in case.ds.iter() {
            // (preconditions of the constructors: client ids below 2^53, clock + len within u32)
            ds.insert(ID::new(ClientID::new(*c & ((1 << 53) - 1)), *k / 2), (*l).min(u32::MAX - *k / 2));
        }
        let snap = Snapshot::new(sv.clone(), ds.clone());
        for v2 in [false, true] {
            let b = if v2 { ds.encode_v2() } else { ds.encode_v1() };
            let d = if v2 { IdSet::decode_v2(&b) } else { IdSet::decode_v1(&b) };
            ensure!(d.as_ref().ok() == Some(&ds), "c09/delete-set/roundtrip", "IdSet {:?} (v2={}) -> {:?}", ds, v2, d);
            let b = if v2 { snap.encode_v2() } else { snap.encode_v1() };
            let d = if v2 { Snapshot::decode_v2(&b) } else { Snapshot::decode_v1(&b) };
            ensure!(d.as_ref().ok() == Some(&snap), "c09/snapshot/roundtrip", "Snapshot (v2={}) does not round trip: {:?}", v2, d);
        }
        // sticky index: binary and serde JSON
        let (kind, c, k, name, before) = &case.sticky;
        let scope = match kind % 3 {
            0 => IndexScope::Relative(ID::new(ClientID::new(*c & ((1 << 53) - 1)), *k)),
            1 => IndexScope::Nested(ID::new(ClientID::new(*c & ((1 << 53) - 1)), *k)),
            _ => IndexScope::Root(Arc::from(name.as_str())),
        };
        let si = StickyIndex::new(scope, if *before { Assoc::Before } else { Assoc::After });
        for v2 in [false, true] {
            let b = if v2 { si.encode_v2() } else { si.encode_v1() };
            let d = if v2 { StickyIndex::decode_v2(&b) } else { StickyIndex::decode_v1(&b) };
            ensure!(d.as_ref().ok() == Some(&si), "c09/sticky-index/binary-roundtrip", "StickyIndex {:?} (v2={}) -> {:?}", si, v2, d);
        }
        match serde_json::to_string(&si) {
            Ok(js) => {
                let d: Result<StickyIndex, _> = serde_json::from_str(&js);
                ensure!(d.as_ref().ok() == Some(&si), "c09/sticky-index/json-roundtrip", "StickyIndex {:?} -> {} -> {:?}", si, js, d.map_err(|e| e.to_string()));
            }
            Err(e) => fail!("c09/sticky-index/json-roundtrip", "StickyIndex {:?} cannot be serialized: {}", si, e),
        }
        // messages: one by one and as a stream through MessageReader
        let msgs: Vec<Message> = case.msgs.iter().map(to_msg).collect();
        let mut stream = EncoderV1::new();
        for m in msgs.iter() {
            let b = m.encode_v1();
            let d = Message::decode_v1(&b);
            let tag = match m {
                Message::Custom(t, _) => format!("custom/tag{}", if *t >= 128 { ">=128" } else { "<128" }),
                Message::Sync(_) => "sync".into(),
                Message::Auth(_) => "auth".into(),
                Message::AwarenessQuery => "awareness-query".into(),
                Message::Awareness(_) => "awareness".into(),
            };
            ensure!(d.as_ref().ok() == Some(m), format!("c09/message/roundtrip/{}", tag), "Message {:?} -> {:?} -> {:?}", m, b, d);
            m.encode(&mut stream);
            st.hit("messages");
        }
        let sb = stream.to_vec();
        let mut dec = DecoderV1::new(Cursor::new(&sb));
        let got: Vec<Result<Message, _>> = MessageReader::new(&mut dec).collect();
        ensure!(got.len() == msgs.len() && got.iter().zip(msgs.iter()).all(|(g, m)| g.as_ref().ok() == Some(m)), "c09/message/stream", "MessageReader over {} concatenated messages yields {:?}", msgs.len(), got);
        if msgs.len() >= 2 {
            st.nt();
        }
        let _ = BTreeMap::<u8, u8>::new();
        Ok(())
    }
}

impl AnyV {
    /// all NaNs equal, -0 kept (binary formats keep the sign)
    pub fn norm_nan(&self) -> AnyV {
        match self {
            AnyV::Num(bits) if f64::from_bits(*bits).is_nan() => AnyV::Num(f64::NAN.to_bits()),
            AnyV::Arr(a) => AnyV::Arr(a.iter().map(|x| x.norm_nan()).collect()),
            AnyV::Map(m) => AnyV::Map(m.iter().map(|(k, v)| (k.clone(), v.norm_nan())).collect()),
            other => other.clone(),
        }
    }
}

// ------------------------------------------------------------------------------------------
// part 2: updates from real histories
// ------------------------------------------------------------------------------------------

pub struct HistoryUpdates;

pub fn update_fixpoint(p: &[u8], v2: bool, what: &str) -> Result<(Vec<u8>, Vec<u8>), Fail> {
    let dec = |b: &[u8], v2: bool| if v2 { Update::decode_v2(b) } else { Update::decode_v1(b) };
    let u = dec(p, v2).map_err(|e| Fail::new(format!("c09/update/undecodable/v{}", if v2 { 2 } else { 1 }), format!("{}: payload does not decode: {}", what, e)))?;
    let e1_v1 = u.encode_v1();
    let e1_v2 = u.encode_v2();
    // fixpoint in the payload's own version
    let e1 = if v2 { &e1_v2 } else { &e1_v1 };
    let u2 = dec(e1, v2).map_err(|e| Fail::new(format!("c09/update/reencoded-undecodable/v{}", if v2 { 2 } else { 1 }), format!("{}: enc(dec(p)) does not decode: {}", what, e)))?;
    let e2 = if v2 { u2.encode_v2() } else { u2.encode_v1() };
    ensure!(*e1 == e2, format!("c09/update/no-fixpoint/v{}", if v2 { 2 } else { 1 }), "{}: enc(dec(enc(dec(p)))) != enc(dec(p))", what);
    // cross version: v1 -> v2 -> v1 and v2 -> v1 -> v2
    let via_v2 = Update::decode_v2(&e1_v2).map_err(|e| Fail::new("c09/update/cross/v2-undecodable", format!("{}: the v2 encoding of a decoded update does not decode: {}", what, e)))?;
    ensure!(via_v2.encode_v1() == e1_v1, "c09/update/cross/v1-v2-v1", "{}: v1 -> v2 -> v1 does not return the v1 bytes", what);
    let via_v1 = Update::decode_v1(&e1_v1).map_err(|e| Fail::new("c09/update/cross/v1-undecodable", format!("{}: the v1 encoding of a decoded update does not decode: {}", what, e)))?;
    ensure!(via_v1.encode_v2() == e1_v2, "c09/update/cross/v2-v1-v2", "{}: v2 -> v1 -> v2 does not return the v2 bytes", what);
    Ok((e1_v1, e1_v2))
}

fn twin_dump(prefix: &[(Vec<u8>, bool)], last: (&[u8], bool)) -> Result<(Node, bool), String> {
    let r = Replica::new(Cfg { client: 7900, utf16: false, skip_gc: true, cleanup: false });
    for (b, v2) in prefix {
        r.apply(b, *v2)?;
    }
    r.apply(last.0, last.1)?;
    Ok((r.dump(), r.has_missing()))
}

impl Prop for HistoryUpdates {
    type Case = History;
    fn name(&self) -> &'static str {
        "history-updates"
    }
    fn cases(&self, tier: Tier) -> u64 {
        tier.pick(100_000, 800_000)
    }
    fn strategy(&self, tier: Tier) -> BoxedStrategy<History> {
        let shape = HistoryShape::default_for(tier);
        let mut p = Profile::all();
        // byte-level comparisons: no multi-key Any maps (sub-document options are one)
        p.subdocs = false;
        history_strategy(p, shape, false)
            .prop_map(|mut h| {
                for s in h.steps.iter_mut() {
                    if let Step::Local { ops, .. } = s {
                        ops.iter_mut().for_each(single_key_maps);
                    }
                }
                h
            })
            .boxed()
    }
    fn check(&self, case: &History, st: &mut CaseStats) -> Result<(), Fail> {
        let mut w = World::new(&case.cfgs);
        for (i, s) in case.steps.iter().enumerate() {
            if let Err(e) = w.step(s) {
                fail!("c09/transport/apply-failed", "history step {} {:?}: {}", i, s, e);
            }
        }
        let mut prefix: Vec<(Vec<u8>, bool)> = Vec::new();
        for (i, u) in w.updates.iter().enumerate() {
            let what = format!("transaction update {}", i);
            let (a1, a2) = update_fixpoint(&u.v1, false, &what)?;
            let (b1, b2) = update_fixpoint(&u.v2, true, &what)?;
            ensure!(a1 == b1 && a2 == b2, "c09/update/v1-v2-events-differ", "{}: the v1 and the v2 update event of one transaction decode to different updates", what);
            // effect equality: original, re-encoded and cross-encoded forms on twins
            let base = twin_dump(&prefix, (&u.v1, false)).map_err(|e| Fail::new("c09/transport/apply-failed", e))?;
            for (bytes, v2, name) in [(&a1, false, "re-encoded v1"), (&a2, true, "cross-encoded v2"), (&u.v2, true, "original v2")] {
                let d = twin_dump(&prefix, (bytes, v2)).map_err(|e| Fail::new("c09/update/effect-undecodable", format!("{} {}: {}", what, name, e)))?;
                if d != base {
                    fail!("c09/update/effect-differs", "{}: applying the {} form gives different content: {}", what, name, first_diff(&d.0, &base.0).unwrap_or_default());
                }
            }
            prefix.push((u.v1.clone(), false));
            st.hit("transaction_updates");
        }
        // full states and diffs (Skip / GC blocks, stash merged in)
        for (k, r) in w.reps.iter().enumerate() {
            for v2 in [false, true] {
                let bytes = {
                    let txn = r.doc.transact();
                    if v2 {
                        txn.encode_state_as_update_v2(&StateVector::default())
                    } else {
                        txn.encode_state_as_update_v1(&StateVector::default())
                    }
                };
                let what = format!("full state of replica {} (v2={})", k, v2);
                let (c1, c2) = update_fixpoint(&bytes, v2, &what)?;
                let base = twin_dump(&[], (&bytes, v2)).map_err(|e| Fail::new("c09/transport/apply-failed", e))?;
                for (b, bv2, name) in [(&c1, false, "re-encoded v1"), (&c2, true, "re-encoded v2")] {
                    let d = twin_dump(&[], (b, bv2)).map_err(|e| Fail::new("c09/update/effect-undecodable", format!("{} {}: {}", what, name, e)))?;
                    if d != base {
                        fail!("c09/update/effect-differs", "{}: applying the {} form gives different content: {}", what, name, first_diff(&d.0, &base.0).unwrap_or_default());
                    }
                }
                if !r.gap_free() {
                    st.hit("full_state_with_gap_or_stash");
                }
                st.hit("full_states");
            }
        }
        if w.updates.len() >= 3 {
            st.nt();
        }
        Ok(())
    }
}

// ------------------------------------------------------------------------------------------
// part 3: Yjs-produced data set shipped in assets/
// ------------------------------------------------------------------------------------------

fn yjs_dataset(env: &RunEnv) -> PartReport {
    let mut rep = PartReport::new("yjs-dataset");
    let path = "/repo/assets/bench-input/small-test-dataset.bin";
    let data = match std::fs::read(path) {
        Ok(d) => d,
        Err(e) => {
            rep.notes.push(format!("cannot read {}: {}", path, e));
            return rep;
        }
    };
    let mut decoder = DecoderV1::from(data.as_slice());
    let test_count: u32 = decoder.read_var().unwrap_or(0);
    // quick: every 8th document (fixed), thorough: all
    let stride = env.tier.pick(8, 1);
    let mut fail: Option<Fail> = None;
    let mut fail_doc = 0;
    'docs: for test_num in 0..test_count {
        let updates_len: u32 = match decoder.read_var() {
            Ok(n) => n,
            Err(_) => break,
        };
        let mut updates: Vec<Vec<u8>> = Vec::new();
        for _ in 0..updates_len {
            match decoder.read_buf() {
                Ok(b) => updates.push(b.to_vec()),
                Err(_) => break 'docs,
            }
        }
        let expected_text = decoder.read_string().map(|s| s.to_string()).unwrap_or_default();
        let expected_map = decoder.read_any().unwrap_or(Any::Undefined);
        let expected_arr = decoder.read_any().unwrap_or(Any::Undefined);
        if test_num % stride != 0 {
            continue;
        }
        let r = (|| -> Result<(), Fail> {
            use yrs::types::ToJson;
            use yrs::{GetString, Options};
            let mk = || {
                let doc = yrs::Doc::with_options(Options { client_id: ClientID::new(77), skip_gc: false, ..Options::default() });
                let t = doc.get_or_insert_text("text");
                let m = doc.get_or_insert_map("map");
                let a = doc.get_or_insert_array("array");
                (doc, t, m, a)
            };
            let docs = [mk(), mk(), mk()];
            let mut merged_in: Vec<Vec<u8>> = Vec::new();
            for (i, u) in updates.iter().enumerate() {
                let what = format!("dataset document {} update {}", test_num, i);
                let (e1, e2) = update_fixpoint(u, false, &what)?;
                docs[0].0.transact_mut().apply_update(Update::decode_v1(u).unwrap()).map_err(|e| Fail::new("c09/yjs/apply-failed", format!("{}: {}", what, e)))?;
                docs[1].0.transact_mut().apply_update(Update::decode_v1(&e1).unwrap()).map_err(|e| Fail::new("c09/yjs/apply-failed", format!("{} re-encoded: {}", what, e)))?;
                docs[2].0.transact_mut().apply_update(Update::decode_v2(&e2).unwrap()).map_err(|e| Fail::new("c09/yjs/apply-failed", format!("{} as v2: {}", what, e)))?;
                merged_in.push(u.clone());
                rep_count();
            }
            for (k, (doc, t, m, a)) in docs.iter().enumerate() {
                let txn = doc.transact();
                let form = ["original", "re-encoded v1", "re-encoded v2"][k];
                ensure!(t.get_string(&txn) == expected_text, "c09/yjs/expected-text", "dataset document {} ({} payloads): text differs from what Yjs expects", test_num, form);
                ensure!(m.to_json(&txn) == expected_map, "c09/yjs/expected-map", "dataset document {} ({} payloads): map differs from what Yjs expects", test_num, form);
                ensure!(a.to_json(&txn) == expected_arr, "c09/yjs/expected-array", "dataset document {} ({} payloads): array differs from what Yjs expects", test_num, form);
            }
            Ok(())
        })();
        rep.evaluations += updates.len() as u64;
        if updates.len() >= 3 {
            rep.nontrivial.insert(splitmix(test_num as u64 ^ 0x9e37));
        }
        if let Err(f) = r {
            fail = Some(f);
            fail_doc = test_num;
            break;
        }
    }
    rep.exhaustive = stride == 1;
    rep.counters.insert("yjs_updates_checked".into(), rep.evaluations);
    rep.samples.push(serde_json::json!({"file": path, "documents": test_count, "stride": stride}));
    if let Some(f) = fail {
        let case = serde_json::json!({"dataset_document": fail_doc});
        let p = write_replay(env, "yjs-dataset", &case, &f, "").unwrap_or_default();
        rep.violations.push(Violation { sig: f.sig, msg: f.msg, replay: p });
    }
    rep
}

fn rep_count() {}

pub fn property() -> Property {
    Property {
        id: "C09",
        level: "exploration",
        rule: "values: generated Any (all tags, NaN/inf/-0/2^53+-1/i64 extremes, astral strings, nesting <=5; binary in v1 and v2 streams, JSON text modulo its documented image), StateVector, delete set, Snapshot, StickyIndex (3 scopes x 2 assoc; binary v1/v2 and serde JSON), sync messages of every tag incl. custom tags 4..255 (one by one and concatenated through MessageReader), awareness updates; history-updates: every transaction update (v1 and v2 event), full state (v1/v2, with Skip/GC blocks and merged stash) of generated multi-replica histories: enc(dec(p)) is a fixpoint, v1->v2->v1 and v2->v1->v2 return the same bytes, original / re-encoded / cross-encoded forms applied to twin documents give equal dumps; builder: syntactically valid v1 payloads written byte by byte by the harness (all content kinds incl. foreign Binary and legacy JSON, origin/right-origin/parent(name|id)/parent_sub combinations, 53-bit clients, Skip and GC blocks, canonical layout) must decode, re-encode to the identical bytes, survive v2, and expose the described ids/dependencies; idmaps: generated IdMap<String> (4 attribute names that come back after other names were introduced, several values per name, 53-bit clients, clocks up to u32::MAX) round-trip in v1, v2 and through v1->v2 / v2->v1 transcription; links: a document holding a quotation or link of every shape (source = root text / root array / text, array or map nested in the root map / XML text; inclusive, exclusive or unbounded ends; map-entry links) is shipped as full state (v1 or v2, and transcribed into the other version) and then as diffs after edits at the edges of the source: both receivers must read the quotation exactly as the sender does and show the same document; yjs-dataset: the Yjs-generated update sequences shipped in assets/ (quick: every 8th document, thorough: all) re-encode to a fixpoint and reproduce Yjs' expected text/map/array after re-encoding in either version.  Non-trivial = nested Any / >=2 messages / >=3 updates / >=2 blocks; distinct = distinct generated case or dataset document".into(),
        assumptions: vec![
            "Update equality is decided on re-encoded bytes and on effects (Update::eq compares ids only)".into(),
            "Embed and Format values travel as JSON text in lib0 v1 (as in Yjs): they are generated JSON-representable".into(),
            "custom message tags are >= 4 (0..3 are the protocol's own)".into(),
        ],
        parts: vec![
            Box::new(Part(Values)),
            Box::new(Part(HistoryUpdates)),
            Box::new(Part(crate::props::c09b::Builder)),
            Box::new(Part(crate::props::c09c::IdMaps)),
            Box::new(Part(crate::props::c09c::Links)),
            Box::new(ExhaustivePart { name: "yjs-dataset", f: yjs_dataset }),
        ],
    }
}
