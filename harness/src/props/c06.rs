//! C06 — state-vector sync is complete, monotone and idempotent.

use crate::dump::*;
use crate::engine::*;
use crate::ops::*;
use crate::props::c07::knowledge;
use crate::world::*;
use crate::{ensure, fail};
use proptest::prelude::*;
use serde::{Deserialize, Serialize};
use std::collections::BTreeMap;
use yrs::updates::decoder::Decode;
use yrs::updates::encoder::{Encode, Encoder, EncoderV1, EncoderV2};
use yrs::{ReadTxn, StateVector, Transact};

#[derive(Clone, Debug, Serialize, Deserialize)]
pub struct Case {
    pub history: History,
    pub a: u8,
    pub b: u8,
    /// B's state vector is recorded after this step (fraction); used when `stale`
    pub sv_at: u16,
    pub stale: bool,
    pub v2: bool,
    /// false: encode_state_as_update, true: encode_diff
    pub use_diff: bool,
}

pub struct SvSync;

fn answer(from: &Replica, sv: &StateVector, v2: bool, use_diff: bool) -> Vec<u8> {
    let txn = from.doc.transact();
    match (use_diff, v2) {
        (false, false) => txn.encode_state_as_update_v1(sv),
        (false, true) => txn.encode_state_as_update_v2(sv),
        (true, false) => {
            let mut e = EncoderV1::new();
            txn.encode_diff(sv, &mut e);
            e.to_vec()
        }
        (true, true) => {
            let mut e = EncoderV2::new();
            txn.encode_diff(sv, &mut e);
            e.to_vec()
        }
    }
}

fn sv_map(r: &Replica) -> BTreeMap<u64, u32> {
    sv_to_vec(&r.sv()).into_iter().collect()
}

fn dominates(big: &BTreeMap<u64, u32>, small: &BTreeMap<u64, u32>) -> bool {
    small.iter().all(|(c, k)| big.get(c).copied().unwrap_or(0) >= *k)
}

impl Prop for SvSync {
    type Case = Case;
    fn name(&self) -> &'static str {
        "svsync"
    }
    fn cases(&self, tier: Tier) -> u64 {
        tier.pick(300_000, 2_000_000)
    }
    fn strategy(&self, tier: Tier) -> BoxedStrategy<Case> {
        let mut shape = HistoryShape::default_for(tier);
        shape.w_sync = 1;
        shape.w_deliver = 8;
        (
            any::<bool>(),
            history_strategy(Profile::all(), shape, false),
            any::<u8>(),
            any::<u8>(),
            any::<u16>(),
            any::<bool>(),
            any::<bool>(),
            any::<bool>(),
        )
            .prop_map(|(cleanup, mut history, a, b, sv_at, stale, v2, use_diff)| {
                for c in history.cfgs.iter_mut() {
                    c.cleanup = cleanup;
                }
                Case { history, a, b, sv_at, stale, v2, use_diff }
            })
            .boxed()
    }

    fn check(&self, case: &Case, st: &mut CaseStats) -> Result<(), Fail> {
        let mut w = World::new(&case.history.cfgs);
        let n = w.reps.len();
        let a = case.a as usize % n;
        let mut b = case.b as usize % n;
        if a == b {
            b = (a + 1) % n;
        }
        let nsteps = case.history.steps.len();
        let rec_at = pick(case.sv_at, nsteps);
        let mut old_sv = StateVector::default();
        let mut prev: Vec<BTreeMap<u64, u32>> = w.reps.iter().map(sv_map).collect();
        for (i, s) in case.history.steps.iter().enumerate() {
            if let Err(e) = w.step(s) {
                fail!("c06/transport/apply-failed", "history step {} {:?}: {}", i, s, e);
            }
            // monitor: a state vector never decreases
            for r in 0..n {
                let now = sv_map(&w.reps[r]);
                ensure!(dominates(&now, &prev[r]), "c06/state-vector-decreased", "step {} {:?}: state vector of replica {} went from {:?} to {:?}", i, s, r, prev[r], now);
                prev[r] = now;
            }
            if i == rec_at {
                old_sv = w.reps[b].sv();
            }
        }
        let (ra, rb) = (&w.reps[a], &w.reps[b]);
        let gaps_a = !ra.gap_free();
        let gaps_b = !rb.gap_free();
        if gaps_a {
            st.hit("A_has_gap_or_stash");
        }
        if gaps_b {
            st.hit("B_has_gap_or_stash");
        }
        // monitor: re-applying known updates changes nothing
        {
            let before = (rb.dump(), sv_map(rb), rb.has_missing(), knowledge(rb));
            let stash_before = {
                let txn = rb.doc.transact();
                txn.store().pending_update().map(|p| p.update.insertions(true)).unwrap_or_default()
            };
            let have: Vec<usize> = rb.received.iter().copied().collect();
            for (k, i) in have.iter().enumerate() {
                if let Err(e) = rb.apply(if k % 2 == 0 { &w.updates[*i].v1 } else { &w.updates[*i].v2 }, k % 2 == 1) {
                    fail!("c06/transport/apply-failed", "re-applying update {}: {}", i, e);
                }
            }
            let after = (rb.dump(), sv_map(rb), rb.has_missing(), knowledge(rb));
            if before.1 != after.1 && gaps_b {
                // G6: the stash held integrable blocks (queued behind a block of the same client);
                // delivered again on their own they are integrated.  Discriminator: everything that
                // became integrated was in the stash before.
                let newly = after.3 .0.diff(&before.3 .0);
                if newly.diff(&stash_before).is_empty() {
                    fail!("c06/held-behind-same-client", "re-applying a received update integrated blocks {:?} that the replica had kept in its stash although they were integrable", newly);
                }
            }
            ensure!(before.1 == after.1, "c06/reapply-changed-state-vector", "re-applying known updates changed the state vector {:?} -> {:?}", before.1, after.1);
            // The statement promises an unchanged state vector.  Content and stash are compared as
            // well when everything B received was integrated (no stash, no gap); a stashed update
            // is 'received' but not yet 'known' content, and delivering it again on its own may
            // legitimately integrate blocks that were queued behind a block of the same client.
            if !gaps_b {
                ensure!(before.2 == after.2, "c06/reapply-changed-pending", "re-applying known updates changed has_missing_updates");
            }
            if !gaps_b && before.0 != after.0 {
                fail!("c06/reapply-changed-content", "re-applying known updates changed content: {}", first_diff(&after.0, &before.0).unwrap_or_default());
            }
            rb.drain();
        }
        // monitor: an update encoded against the receiver's own state vector changes nothing
        {
            let before = (rb.dump(), sv_map(rb), knowledge(rb));
            let bytes = answer(rb, &rb.sv(), case.v2, case.use_diff);
            if let Err(e) = rb.apply(&bytes, case.v2) {
                fail!("c06/self-diff-undecodable", "update encoded against the own state vector cannot be applied: {}", e);
            }
            let after = (rb.dump(), sv_map(rb), knowledge(rb));
            ensure!(before == after, "c06/self-diff-changed-state", "applying an update encoded against the own current state vector changed the replica");
            rb.drain();
        }
        // the exchange
        let sv = if case.stale { old_sv.clone() } else { rb.sv() };
        if case.stale {
            st.hit("stale_state_vector");
        }
        let sva = sv_map(ra);
        let svb = sv_map(rb);
        let incomparable = !dominates(&sva, &svb) && !dominates(&svb, &sva);
        if incomparable {
            st.hit("incomparable_state_vectors");
        }
        if incomparable || case.stale || gaps_a {
            st.nt();
        }
        let (ins_a, ds_a) = knowledge(ra);
        let bytes = answer(ra, &sv, case.v2, case.use_diff);
        if let Err(e) = rb.apply(&bytes, case.v2) {
            fail!("c06/answer-undecodable", "the update A encodes against B's state vector (v2={}, encode_diff={}) cannot be applied: {}", case.v2, case.use_diff, e);
        }
        rb.drain();
        let (ins_b, ds_b) = knowledge(rb);
        let lacking = ins_a.diff(&ins_b);
        if !lacking.is_empty() {
            // known finding G6: blocks that arrive in ONE update behind a block of the same client
            // that lacks a dependency are stashed although they are integrable on their own
            // (encode_state_as_update merges A's stash into the answer).  Discriminator: every
            // lacking block sits in B's stash.
            let stash = {
                let txn = rb.doc.transact();
                txn.store().pending_update().map(|p| p.update.insertions(true)).unwrap_or_default()
            };
            if lacking.diff(&stash).is_empty() {
                fail!("c06/held-behind-same-client", "blocks integrated in A are stashed (not integrated) in B after the sync: {:?}", lacking);
            }
        }
        let svb2 = sv_map(rb);
        ensure!(
            dominates(&svb2, &sva),
            "c06/not-dominating",
            "after applying A's answer B's state vector {:?} does not dominate A's {:?} (B sent {:?}, stale={})",
            svb2,
            sva,
            sv_to_vec(&sv),
            case.stale
        );
        ensure!(lacking.is_empty(), "c06/blocks-not-transferred", "blocks integrated in A are not integrated in B after the sync: {:?}", lacking);
        let lacking = ds_a.diff(&ds_b);
        ensure!(lacking.is_empty(), "c06/deletions-not-transferred", "deletions known to A are not applied in B after the sync: {:?}", lacking);

        // repeat in both directions until neither side changes
        let mut rounds = 0;
        loop {
            rounds += 1;
            let before = (knowledge(ra), knowledge(rb), ra.has_missing(), rb.has_missing());
            for (from, to) in [(rb, ra), (ra, rb)] {
                let bytes = answer(from, &to.sv(), rounds % 2 == 0, false);
                if let Err(e) = to.apply(&bytes, rounds % 2 == 0) {
                    fail!("c06/answer-undecodable", "exchange round {}: {}", rounds, e);
                }
                to.drain();
            }
            let after = (knowledge(ra), knowledge(rb), ra.has_missing(), rb.has_missing());
            if before == after {
                break;
            }
            ensure!(rounds <= 4, "c06/no-fixpoint", "A and B still change after {} exchange rounds", rounds);
        }
        let (da, db) = (ra.dump(), rb.dump());
        // (the state vectors may differ with equal dumps: a held block that is deleted anyway, and
        // a block of another client that waits for it)
        if (da != db || sv_map(ra) != sv_map(rb)) && (ra.has_missing() || rb.has_missing()) {
            // G6 again: both sides hold the same blocks, one of them partly in its stash
            let total = |r: &Replica| {
                let txn = r.doc.transact();
                let stash = txn.store().pending_update().map(|p| p.update.insertions(true)).unwrap_or_default();
                drop(txn);
                knowledge(r).0.merge(&stash)
            };
            if total(ra) == total(rb) {
                fail!(
                    "c06/held-behind-same-client",
                    "fixpoint reached, both sides hold the same blocks but one keeps integrable ones in its stash: {}",
                    first_diff(&da, &db).unwrap_or_else(|| format!("state vectors {:?} vs {:?}", sv_map(ra), sv_map(rb)))
                );
            }
        }
        if da != db {
            fail!("c06/fixpoint-differs", "after exchanging until neither side changes A and B differ: {}", first_diff(&da, &db).unwrap_or_default());
        }
        ensure!(sv_map(ra) == sv_map(rb), "c06/fixpoint-state-vector", "fixpoint reached but state vectors differ: {:?} vs {:?}", sv_map(ra), sv_map(rb));
        let _ = StateVector::decode_v1(&sv.encode_v1());
        Ok(())
    }
}

pub fn property() -> Property {
    Property {
        id: "C06",
        level: "exploration",
        rule: "pairs (A,B) of replica states reached by generated multi-replica histories (out-of-order deliveries, so gaps and stashes occur; GC on/off; nested types; sub-documents; clean-up on/off); B sends its current state vector or one recorded at a generated earlier step; A answers with encode_state_as_update or encode_diff in v1 or v2.  Oracle: B's state vector dominates A's, every block integrated in A and every deletion known to A is present in B (hook store_blocks), alternating exchanges reach a fixpoint within 4 rounds with equal dumps and state vectors; monitors on every step: state vectors never decrease, re-applying every received update and applying a diff against the own state vector change nothing.  Non-trivial = the two state vectors are incomparable, or B's vector is stale, or A has a gap/stash; distinct = distinct generated case".into(),
        assumptions: vec!["'everything A had integrated' is read from the block stores (ids of integrated blocks and of deleted blocks)".into()],
        parts: vec![Box::new(Part(SvSync))],
    }
}
