//! C14 — sticky indexes keep pointing at the same place.

use crate::engine::*;
use crate::interp::str_width;
use crate::ops::*;
use crate::props::c04::visible;
use crate::world::*;
use crate::{ensure, fail};
use proptest::prelude::*;
use serde::{Deserialize, Serialize};
use yrs::branch::{Branch, BranchPtr};
use yrs::updates::decoder::Decode;
use yrs::updates::encoder::Encode;
use yrs::verif_hooks::{branch_items, store_blocks, BlockKind, ItemInfo};
use yrs::{Assoc, IndexedSequence, OffsetKind, ReadTxn, StickyIndex, Transact, ID};

#[derive(Clone, Debug, Serialize, Deserialize)]
pub struct Spec {
    /// created after this step (fraction of the history)
    pub at: u16,
    pub r: u8,
    /// 0 text, 1 array, 2 xml children
    pub coll: u8,
    pub pos: u16,
    pub before: bool,
    /// create through from_type (start/end of the collection) instead of sticky_index
    pub from_type: bool,
}

#[derive(Clone, Debug, Serialize, Deserialize)]
pub struct Case {
    pub history: History,
    pub specs: Vec<Spec>,
}

pub struct Sticky;

#[derive(Clone)]
enum Expect {
    /// anchored to element with this id; After = position before it, Before = position after it
    Anchor(ID),
    Start,
    End,
}

struct Live {
    coll: usize,
    idx: StickyIndex,
    copies: Vec<StickyIndex>,
    expect: Expect,
    before: bool,
    created_by: usize,
}

fn branch_of(r: &Replica, coll: usize) -> BranchPtr {
    match coll {
        0 => BranchPtr::from(AsRef::<Branch>::as_ref(&r.roots.text)),
        1 => BranchPtr::from(AsRef::<Branch>::as_ref(&r.roots.arr)),
        _ => BranchPtr::from(AsRef::<Branch>::as_ref(&r.roots.xml)),
    }
}

fn item_width(it: &ItemInfo, kind: OffsetKind) -> u32 {
    match &it.text {
        Some(s) => str_width(s, kind),
        None => it.len,
    }
}

/// width (in the replica's offset unit) of the first `n` clock units of an item
fn prefix_width(it: &ItemInfo, n: u32, kind: OffsetKind) -> u32 {
    match &it.text {
        Some(s) => {
            // n counts UTF-16 code units of the string
            let mut units = 0u32;
            let mut w = 0u32;
            for c in s.chars() {
                if units >= n {
                    break;
                }
                units += c.len_utf16() as u32;
                w += match kind {
                    OffsetKind::Bytes => c.len_utf8() as u32,
                    OffsetKind::Utf16 => c.len_utf16() as u32,
                };
            }
            w
        }
        None => n,
    }
}

/// expected offset of an anchor from the item list (exact also for tombstones); None = the anchor
/// is not in the list (not integrated or collected)
fn expected_from_items(items: &[ItemInfo], anchor: &ID, before: bool, kind: OffsetKind) -> Option<u32> {
    let mut left = 0u32;
    for it in items.iter() {
        let inside = it.id.client == anchor.client && anchor.clock >= it.id.clock && anchor.clock < it.id.clock + it.len;
        if inside {
            if it.deleted || !it.countable {
                return Some(left);
            }
            let off = anchor.clock - it.id.clock;
            return Some(left + prefix_width(it, if before { off + 1 } else { off }, kind));
        }
        if !it.deleted && it.countable {
            left += item_width(it, kind);
        }
    }
    None
}

fn check_all(w: &World, r: usize, live: &[Live], when: &str, st: &mut CaseStats) -> Result<(), Fail> {
    let rep = &w.reps[r];
    let kind = rep.cfg.kind();
    let txn = rep.doc.transact();
    let blocks = store_blocks(txn.store());
    let skips = yrs::verif_hooks::store_skips(txn.store());
    for (k, l) in live.iter().enumerate() {
        let branch = branch_of(rep, l.coll);
        let items = branch_items(&branch);
        let total: u32 = items.iter().filter(|i| !i.deleted && i.countable).map(|i| item_width(i, kind)).sum();
        let expected: Option<u32> = match &l.expect {
            Expect::Start => Some(0),
            Expect::End => Some(total),
            Expect::Anchor(id) => {
                // does this replica know the anchoring element?
                let known = blocks.iter().any(|b| b.client == id.client && id.clock >= b.clock && id.clock < b.clock + b.len && b.kind != BlockKind::Skip) && !skips.contains(id);
                if !known {
                    st.hit("anchor_not_known_on_replica");
                    continue;
                }
                match expected_from_items(&items, id, l.before, kind) {
                    Some(e) => {
                        if items.iter().any(|i| i.id.client == id.client && id.clock >= i.id.clock && id.clock < i.id.clock + i.len && i.deleted) {
                            st.hit("resolved_with_deleted_anchor");
                            st.nt();
                        }
                        Some(e)
                    }
                    None => {
                        // the anchor was collected on this replica: None is accepted
                        let gc = blocks.iter().any(|b| b.client == id.client && id.clock >= b.clock && id.clock < b.clock + b.len && b.kind == BlockKind::GC);
                        if gc {
                            st.hit("anchor_collected");
                            continue;
                        }
                        fail!("c14/harness/anchor-not-found", "{}: anchor {} of sticky index {} is known but not in the item list", when, id, k);
                    }
                }
            }
        };
        for (ci, idx) in std::iter::once(&l.idx).chain(l.copies.iter()).enumerate() {
            let got = idx.get_offset(&txn);
            let what = ["original", "binary v1 copy", "binary v2 copy", "JSON copy"][ci.min(3)];
            match (got, expected) {
                (Some(o), Some(e)) => {
                    ensure!(
                        o.index == e,
                        format!("c14/wrong-offset/{}", match &l.expect { Expect::Anchor(_) => if l.before { "before" } else { "after" }, Expect::Start => "start", Expect::End => "end" }),
                        "{}: sticky index {} ({}, created on replica {}, {:?}, assoc {}) resolves to {} on replica {}, expected {} (sequence {:?})",
                        when,
                        k,
                        what,
                        l.created_by,
                        idx,
                        if l.before { "Before" } else { "After" },
                        o.index,
                        r,
                        e,
                        visible(rep)[l.coll]
                    );
                    ensure!(o.branch == branch, "c14/wrong-branch", "{}: sticky index {} resolves into another collection", when, k);
                }
                (None, Some(e)) => fail!("c14/unresolved", "{}: sticky index {} ({}) does not resolve on replica {} although its anchor is known (expected {})", when, k, what, r, e),
                (_, None) => {}
            }
            st.hit("resolutions_checked");
        }
    }
    Ok(())
}

impl Prop for Sticky {
    type Case = Case;
    fn name(&self) -> &'static str {
        "sticky"
    }
    fn cases(&self, tier: Tier) -> u64 {
        tier.pick(500_000, 3_000_000)
    }
    fn strategy(&self, tier: Tier) -> BoxedStrategy<Case> {
        let mut shape = HistoryShape::default_for(tier);
        shape.steps = 4..=tier.pick(24, 40);
        shape.ops_per_txn = 2;
        (
            // formatting does not move anything: format marks in front of an anchor must not be counted
            history_strategy(Profile { format: 2, ..Profile::sequences_unique() }, shape, false),
            prop::collection::vec((any::<u16>(), any::<u8>(), 0u8..3, any::<u16>(), any::<bool>(), prop::bool::weighted(0.15)), 1..5),
        )
            .prop_map(|(history, specs)| Case {
                history,
                specs: specs.into_iter().map(|(at, r, coll, pos, before, from_type)| Spec { at, r, coll, pos, before, from_type }).collect(),
            })
            .boxed()
    }

    fn check(&self, case: &Case, st: &mut CaseStats) -> Result<(), Fail> {
        let mut w = World::new(&case.history.cfgs);
        let n = w.reps.len();
        let nsteps = case.history.steps.len();
        let mut live: Vec<Live> = Vec::new();
        for (i, s) in case.history.steps.iter().enumerate() {
            let when = format!("after step {} {:?}", i, s);
            if let Err(e) = w.step(s) {
                fail!("c14/transport/apply-failed", "{}: {}", when, e);
            }
            // create indexes scheduled for this point
            for spec in case.specs.iter() {
                if pick(spec.at, nsteps) != i {
                    continue;
                }
                let r = spec.r as usize % n;
                let rep = &w.reps[r];
                let coll = spec.coll as usize % 3;
                let txn = rep.doc.transact();
                let branch = branch_of(rep, coll);
                let items = branch_items(&branch);
                let kind = rep.cfg.kind();
                // positions are chosen on element boundaries: walk visible items
                let mut bounds: Vec<(u32, Option<ID>, Option<ID>)> = Vec::new(); // (offset, id of element right of it, id of element left of it)
                {
                    let mut off = 0u32;
                    let mut prev: Option<ID> = None;
                    for it in items.iter().filter(|i| !i.deleted && i.countable) {
                        match &it.text {
                            Some(s) => {
                                let mut units = 0u32;
                                for c in s.chars() {
                                    let id = ID::new(it.id.client, it.id.clock + units);
                                    bounds.push((off, Some(id), prev));
                                    units += c.len_utf16() as u32;
                                    off += match kind {
                                        OffsetKind::Bytes => c.len_utf8() as u32,
                                        OffsetKind::Utf16 => c.len_utf16() as u32,
                                    };
                                    // for Before the anchor is the last code unit of the element
                                    prev = Some(ID::new(it.id.client, it.id.clock + units - 1));
                                }
                            }
                            None => {
                                for k in 0..it.len {
                                    let id = ID::new(it.id.client, it.id.clock + k);
                                    bounds.push((off, Some(id), prev));
                                    off += 1;
                                    prev = Some(id);
                                }
                            }
                        }
                    }
                    bounds.push((off, None, prev));
                }
                let assoc = if spec.before { Assoc::Before } else { Assoc::After };
                let (idx, expect) = if spec.from_type {
                    (StickyIndex::from_type(&txn, &branch, assoc), if spec.before { Expect::Start } else { Expect::End })
                } else {
                    let b = &bounds[pick(spec.pos, bounds.len())];
                    let made = match coll {
                        0 => rep.roots.text.sticky_index(&txn, b.0, assoc),
                        1 => rep.roots.arr.sticky_index(&txn, b.0, assoc),
                        _ => rep.roots.xml.sticky_index(&txn, b.0, assoc),
                    };
                    let expect = match (spec.before, &b.1, &b.2) {
                        (false, Some(right), _) => Expect::Anchor(*right),
                        (false, None, _) => {
                            // After at the very end: documented to return None
                            ensure!(made.is_none() || true, "c14/creation", "unreachable");
                            st.hit("after_at_end_not_creatable");
                            continue;
                        }
                        (true, _, Some(left)) => Expect::Anchor(*left),
                        (true, _, None) => Expect::Start,
                    };
                    match made {
                        Some(m) => (m, expect),
                        None => fail!("c14/creation", "{}: sticky_index({}, {:?}) returned None for an in-range position on replica {}", when, b.0, assoc, r),
                    }
                };
                // the index itself tells what it is anchored to: must be the element the model expects
                if let (Expect::Anchor(id), Some(got)) = (&expect, idx.id()) {
                    ensure!(got == id, "c14/creation-anchor", "{}: sticky index created at a position next to element {} is anchored to {}", when, id, got);
                }
                let mut copies = Vec::new();
                match StickyIndex::decode_v1(&idx.encode_v1()) {
                    Ok(c) => copies.push(c),
                    Err(e) => fail!("c14/serialization", "{}: binary v1 copy of {:?} does not decode: {}", when, idx, e),
                }
                match StickyIndex::decode_v2(&idx.encode_v2()) {
                    Ok(c) => copies.push(c),
                    Err(e) => fail!("c14/serialization", "{}: binary v2 copy of {:?} does not decode: {}", when, idx, e),
                }
                match serde_json::to_string(&idx).map_err(|e| e.to_string()).and_then(|s| serde_json::from_str::<StickyIndex>(&s).map_err(|e| e.to_string())) {
                    Ok(c) => copies.push(c),
                    Err(e) => fail!("c14/serialization", "{}: JSON copy of {:?} failed: {}", when, idx, e),
                }
                drop(txn);
                live.push(Live { coll, idx, copies, expect, before: spec.before, created_by: r });
                st.hit("indexes_created");
            }
            let touched = match s {
                Step::Local { r, .. } => *r as usize % n,
                Step::Deliver { to, .. } | Step::Dup { to, .. } | Step::Merge { to, .. } | Step::Sync { to, .. } => *to as usize % n,
            };
            check_all(&w, touched, &live, &when, st)?;
        }
        // final: everybody gets everything, all indexes checked on all replicas
        for r in 0..n {
            for i in w.missing(r) {
                if let Err(e) = w.deliver(r, i, false) {
                    fail!("c14/transport/apply-failed", "final flush: {}", e);
                }
            }
            check_all(&w, r, &live, &format!("after the final flush on replica {}", r), st)?;
        }
        Ok(())
    }
}

pub fn property() -> Property {
    Property {
        id: "C14",
        level: "exploration",
        rule: "histories over uniquely tagged elements (as C04: root text with characters of every width, root array, root XML child list; both offset kinds; GC on/off) in which 1..4 sticky indexes are created at generated points, on generated replicas, at every kind of position (start, interior, end, both Assoc, from_type on the collection); each index is also copied through binary v1, binary v2 and serde JSON; after EVERY later step on the touched replica, and on every replica after a final flush, the original and the copies must resolve (get_offset) to the position of the anchoring element computed from the item list (hook branch_items: start of the element for After, end for Before, the gap of the tombstone if it was deleted), provided the replica knows the anchor; start/end indexes resolve to 0/len.  nested-ends: indexes taken with from_type at the start/end of a text, array or XML element nested in the root map (scope Nested; empty or filled; created by clients of every id width up to 2^53-1), copied through binary v1/v2 and JSON (copies must equal the original), must keep resolving to 0 / the current length on the author and on a remote replica while both edit the collection.  Non-trivial = some resolution happened with a deleted anchor; distinct = distinct generated case".into(),
        assumptions: vec![
            "the position of a tombstone is read from the item order (hook branch_items); C04 checks that order independently".into(),
            "a replica that has collected the anchor may answer None (counted)".into(),
            "Assoc::After at the very end of a collection is documented to be not creatable through sticky_index (from_type covers it)".into(),
        ],
        parts: vec![Box::new(Part(Sticky)), Box::new(Part(crate::props::c14b::NestedEnds))],
    }
}
