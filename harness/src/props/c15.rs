//! C15 — garbage collection is invisible.
//!
//! Twin receivers (GC on / GC off) are fed the identical delivery stream and compared after every
//! delivery; forced GC (`gc(None)` / `gc(Some(ds))`) is injected on authors and on the GC twin;
//! mixed-GC authors converge; a document rebuilt from a collected replica's full state equals it.

use crate::dump::*;
use crate::engine::*;
use crate::ops::*;
use crate::props::c01::{exec_delivery, plan, sched_strategy, Sched};
use crate::world::*;
use crate::{ensure, fail};
use proptest::prelude::*;
use serde::{Deserialize, Serialize};
use yrs::{ReadTxn, StateVector, Transact};

#[derive(Clone, Debug, Serialize, Deserialize)]
pub struct Case {
    pub history: History,
    pub sched: Sched,
    /// after which history steps a forced GC runs on replica (step % n); value 0 = gc(None), 1 = gc(Some(own delete set))
    pub gc_after: Vec<(u16, bool)>,
    /// after which deliveries the GC twin is force-collected
    pub twin_gc_after: Vec<u16>,
    pub twin_utf16: bool,
    /// both twins clean up redundant formatting (the library's default)
    #[serde(default)]
    pub twin_cleanup: bool,
}

pub struct Twins;

fn force_gc(r: &Replica, with_ds: bool) {
    let mut txn = r.doc.transact_mut();
    if with_ds {
        let ds = txn.snapshot().delete_set;
        txn.gc(Some(&ds));
    } else {
        txn.gc(None);
    }
}

fn collected_blocks(r: &Replica) -> usize {
    let txn = r.doc.transact();
    yrs::verif_hooks::store_blocks(txn.store()).iter().filter(|b| b.kind == yrs::verif_hooks::BlockKind::GC).count()
}

impl Prop for Twins {
    type Case = Case;
    fn name(&self) -> &'static str {
        "twins"
    }
    fn cases(&self, tier: Tier) -> u64 {
        tier.pick(300_000, 2_000_000)
    }
    fn strategy(&self, tier: Tier) -> BoxedStrategy<Case> {
        let shape = HistoryShape::default_for(tier);
        let mut p = Profile::all();
        p.remove_weight = 6;
        p.map = 7;
        (
            history_strategy(p, shape, false),
            sched_strategy(),
            prop::collection::vec((any::<u16>(), any::<bool>()), 0..4),
            prop::collection::vec(any::<u16>(), 0..3),
            any::<bool>(),
            any::<bool>(),
        )
            .prop_map(|(history, sched, gc_after, twin_gc_after, twin_utf16, twin_cleanup)| Case { history, sched, gc_after, twin_gc_after, twin_utf16, twin_cleanup })
            .boxed()
    }

    fn check(&self, case: &Case, st: &mut CaseStats) -> Result<(), Fail> {
        let mut w = World::new(&case.history.cfgs);
        let nsteps = case.history.steps.len();
        let n = w.reps.len();
        for (i, s) in case.history.steps.iter().enumerate() {
            if let Err(e) = w.step(s) {
                fail!("c15/transport/apply-failed", "history step {} {:?}: {}", i, s, e);
            }
            for (f, with_ds) in case.gc_after.iter() {
                if pick(*f, nsteps.max(1)) == i {
                    let r = i % n;
                    let before = w.reps[r].dump();
                    let sv_before = sv_to_vec(&w.reps[r].sv());
                    force_gc(&w.reps[r], *with_ds);
                    w.reps[r].drain();
                    let after = w.reps[r].dump();
                    if before != after {
                        fail!("c15/forced-gc-changed-content", "forced GC on author {} after step {} changed readable content: {}", r, i, first_diff(&after, &before).unwrap_or_default());
                    }
                    ensure!(sv_before == sv_to_vec(&w.reps[r].sv()), "c15/forced-gc-changed-state-vector", "forced GC changed the state vector");
                    st.hit("forced_gc_on_author");
                }
            }
        }
        let n_up = w.updates.len();
        if n_up == 0 {
            return Ok(());
        }
        // twins
        let on = Replica::new(Cfg { client: 7001, utf16: case.twin_utf16, skip_gc: false, cleanup: case.twin_cleanup });
        let off = Replica::new(Cfg { client: 7002, utf16: case.twin_utf16, skip_gc: true, cleanup: case.twin_cleanup });
        if case.twin_cleanup {
            st.hit("twins_with_format_cleanup");
        }
        let all: Vec<usize> = (0..n_up).collect();
        let p = plan(&case.sched, &all);
        for (di, d) in p.iter().enumerate() {
            exec_delivery(&w, &on, d).map_err(|f| Fail::new(f.sig.replace("c01/", "c15/"), f.msg))?;
            exec_delivery(&w, &off, d).map_err(|f| Fail::new(f.sig.replace("c01/", "c15/"), f.msg))?;
            for f in case.twin_gc_after.iter() {
                if pick(*f, p.len()) == di {
                    let before = on.dump();
                    force_gc(&on, false);
                    on.drain();
                    let after = on.dump();
                    if before != after {
                        fail!("c15/forced-gc-changed-content", "forced GC on the GC twin after delivery {} changed readable content: {}", di, first_diff(&after, &before).unwrap_or_default());
                    }
                    st.hit("forced_gc_on_twin");
                }
            }
            let a = on.dump();
            let b = off.dump();
            if a != b {
                fail!(
                    "c15/twin-divergence",
                    "after delivery {} {:?} the GC-enabled twin differs from the GC-disabled twin: {}",
                    di,
                    d.idxs,
                    first_diff(&a, &b).unwrap_or_default()
                );
            }
            ensure!(on.has_missing() == off.has_missing(), "c15/twin-pending", "after delivery {}: twins disagree about missing updates", di);
        }
        if collected_blocks(&on) > 0 {
            st.hit("twin_collected_something");
            st.nt();
        }
        // mixed-GC authors converge with the twins after a final flush (emission order)
        for r in 0..n {
            for i in w.missing(r) {
                if let Err(e) = w.deliver(r, i, i % 2 == 0) {
                    fail!("c15/transport/apply-failed", "final flush to author {}: {}", r, e);
                }
            }
        }
        // (twins that clean up formatting are not passive: they may differ from the authors, who
        // do not, in formatting — DESIGN section 7 — so they are compared with each other only)
        let twin_dump = if case.twin_cleanup { w.reps[0].dump() } else { on.dump() };
        for r in 0..n {
            let d = w.reps[r].dump();
            if d != twin_dump {
                fail!("c15/mixed-gc-divergence", "author {} (skip_gc={}) differs from the twins: {}", r, w.reps[r].cfg.skip_gc, first_diff(&d, &twin_dump).unwrap_or_default());
            }
        }
        // rebuild from the collected replicas' full state
        let mut sources: Vec<&Replica> = vec![&on];
        for r in w.reps.iter() {
            if !r.cfg.skip_gc {
                sources.push(r);
            }
        }
        for (k, src) in sources.iter().enumerate() {
            for v2 in [false, true] {
                let bytes = {
                    let txn = src.doc.transact();
                    if v2 {
                        txn.encode_state_as_update_v2(&StateVector::default())
                    } else {
                        txn.encode_state_as_update_v1(&StateVector::default())
                    }
                };
                let f = Replica::new(Cfg { client: 7100 + k as u64, utf16: false, skip_gc: k % 2 == 0, cleanup: false });
                if let Err(e) = f.apply(&bytes, v2) {
                    fail!("c15/rebuild/apply-failed", "full state of a collected replica (v2={}) cannot be applied: {}", v2, e);
                }
                ensure!(!f.has_missing(), "c15/rebuild/pending", "document rebuilt from a collected replica's full state reports missing updates");
                let d = f.dump();
                let own = src.dump();
                if d != own {
                    fail!("c15/rebuild/content", "document rebuilt from a collected replica's full state (v2={}) differs: {}", v2, first_diff(&d, &own).unwrap_or_default());
                }
            }
        }
        Ok(())
    }
}

/// "Content an undo manager still needs is not collected": the isolated undo programs of C12 (same
/// case type, same dump-sequence oracle) with forced GC as a frequent step, text-heavy edits with many
/// removals, on documents with and without automatic GC.
pub struct UndoGc;

impl Prop for UndoGc {
    type Case = crate::props::c12::ICase;
    fn name(&self) -> &'static str {
        "undo-gc"
    }
    fn cases(&self, tier: Tier) -> u64 {
        tier.pick(300_000, 2_000_000)
    }
    fn strategy(&self, tier: Tier) -> BoxedStrategy<Self::Case> {
        use crate::props::c12::{ICase, IStep};
        let mut p = Profile::all();
        p.text *= 3;
        p.remove_weight = 6;
        p.subdocs = false;
        let step = prop_oneof![
            8 => (txn_ops(&p, 3), prop::bool::weighted(0.6)).prop_map(|(ops, gap)| IStep::Edit { ops, gap }),
            4 => Just(IStep::Undo),
            2 => Just(IStep::Redo),
            1 => Just(IStep::Reset),
            4 => Just(IStep::Gc),
        ];
        (cfgs_strategy(1..=1, false), any::<bool>(), 0u8..4, prop::collection::vec(step, 3..=tier.pick(22, 36)), prop::bool::weighted(0.3))
            .prop_map(|(mut cfgs, cleanup, scope, steps, async_api)| {
                cfgs[0].cleanup = cleanup;
                ICase { cfg: cfgs.remove(0), scope, steps, async_api }
            })
            .boxed()
    }
    fn check(&self, case: &Self::Case, st: &mut CaseStats) -> Result<(), Fail> {
        let r = crate::props::c12::Isolated.check(case, st);
        // non-trivial here: a forced GC between a captured deletion and an undo
        let mut seen_gc_after_edit = false;
        let mut edited = false;
        for s in case.steps.iter() {
            match s {
                crate::props::c12::IStep::Edit { .. } => edited = true,
                crate::props::c12::IStep::Gc if edited => seen_gc_after_edit = true,
                crate::props::c12::IStep::Undo if seen_gc_after_edit => {
                    st.nt();
                    break;
                }
                _ => {}
            }
        }
        r
    }
}

/// Quotations and links read the same with and without garbage collection: the `links` scenario of
/// C09 (`props/c09c.rs`) ships every update to a collecting and to a non-collecting receiver and
/// compares what the quotation reads on the sender and on both, after the transfer and after every
/// edit of the source (removals and overwrites of a linked map entry among them).
pub struct LinkTwins;

impl Prop for LinkTwins {
    type Case = crate::props::c09c::LinkCase;
    fn name(&self) -> &'static str {
        "link-twins"
    }
    fn cases(&self, tier: Tier) -> u64 {
        tier.pick(150_000, 1_000_000)
    }
    fn strategy(&self, tier: Tier) -> BoxedStrategy<Self::Case> {
        crate::props::c09c::Links.strategy(tier)
    }
    fn check(&self, case: &Self::Case, st: &mut CaseStats) -> Result<(), Fail> {
        crate::props::c09c::Links.check(case, st).map_err(|f| Fail::new(f.sig.replace("c09/links", "c15/links"), f.msg))
    }
}

pub fn property() -> Property {
    Property {
        id: "C15",
        level: "exploration",
        rule: "histories as in C01 rich in deletions (plain content, nested subtrees, map overwrites, formatting) with forced GC (gc(None) or gc(Some(delete set))) injected on authors at generated points; the complete update set is then delivered under a generated schedule to a GC-enabled and a GC-disabled twin (both with or both without automatic format clean-up, the library's default being with) which are compared after every delivery (forced GC injected on the GC twin); authors with mixed GC settings are flushed and compared; every collected replica's full state (v1 and v2) is rebuilt into a fresh document; undo-gc: programs of tracked edits / undo / redo / reset with forced GC as a frequent step on one document, dump-sequence model of C12 (undo yields the previous distinct dump although GC ran in between).  link-twins: the links scenario of C09 (quotations and map-entry links of every shape, edits at the edges of the source, removals and overwrites of a linked entry) shipped to a collecting and to a non-collecting receiver: what the quotation reads must be the same on the sender and on both.  Non-trivial = the GC twin really collected blocks / an undo follows a forced GC that follows an edit; distinct = distinct generated case".into(),
        assumptions: vec!["equality is the canonical dump".into(), "the undo-gc part reuses the isolated undo model of C12 (same case type and oracle, other step weights)".into()],
        parts: vec![Box::new(Part(Twins)), Box::new(Part(UndoGc)), Box::new(Part(LinkTwins))],
    }
}
