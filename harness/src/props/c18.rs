//! C18 — y-sync handshake and awareness states converge.

use crate::dump::*;
use crate::engine::*;
use crate::interp::*;
use crate::ops::*;
use crate::world::*;
use crate::{ensure, fail};
use proptest::prelude::*;
use serde::{Deserialize, Serialize};
use std::cell::RefCell;
use std::collections::{BTreeMap, VecDeque};
use std::rc::Rc;
use std::sync::atomic::{AtomicU64, Ordering};
use std::sync::Arc;
use yrs::sync::awareness::AwarenessUpdateEntry;
use yrs::sync::{Awareness, AwarenessUpdate, DefaultProtocol, Message, Protocol, SyncMessage};
use yrs::updates::decoder::Decode;
use yrs::updates::encoder::{Encode, Encoder, EncoderV1};
use yrs::{ClientID, ReadTxn, Transact};

// ------------------------------------------------------------------------------------------
// handshake
// ------------------------------------------------------------------------------------------

#[derive(Clone, Debug, Serialize, Deserialize)]
pub enum HStep {
    /// deliver the next payload travelling towards peer `to`
    Deliver { to: bool },
    /// local edit on a peer while the handshake is running
    Edit { on: bool, ops: Vec<Op> },
}

#[derive(Clone, Debug, Serialize, Deserialize)]
pub struct HCase {
    pub cfgs: Vec<Cfg>,
    /// edits both peers share before the connection
    pub shared: Vec<Vec<Op>>,
    /// divergent edits before the connection
    pub pre_a: Vec<Vec<Op>>,
    pub pre_b: Vec<Vec<Op>>,
    pub steps: Vec<HStep>,
}

pub struct Handshake;

struct Peer {
    aw: Awareness,
    roots: Roots,
    cfg: Cfg,
    out: Rc<RefCell<Vec<Vec<u8>>>>,
    _sub: yrs::Subscription,
}

impl Peer {
    fn new(cfg: &Cfg, clock: Arc<AtomicU64>) -> Peer {
        let doc = cfg.make_doc();
        let roots = Roots::declare(&doc);
        let out = Rc::new(RefCell::new(Vec::new()));
        let o = out.clone();
        let sub = doc.observe_update_v1(move |_, e| o.borrow_mut().push(e.update.clone())).expect("observe");
        let aw = Awareness::with_clock(doc, move || clock.load(Ordering::SeqCst));
        Peer { aw, roots, cfg: cfg.clone(), out, _sub: sub }
    }
    fn dump(&self) -> Node {
        let txn = self.aw.doc().transact();
        dump_doc(&txn, &self.roots)
    }
    fn edit(&self, ops: &[Op], alloc: &mut Alloc) {
        let mut txn = self.aw.doc().transact_mut();
        run_ops(&mut txn, &self.roots, ops, alloc, self.cfg.kind());
    }
}

fn encode_checked(m: &Message) -> Result<Vec<u8>, Fail> {
    let b = m.encode_v1();
    let d = Message::decode_v1(&b);
    ensure!(d.as_ref().ok() == Some(m), "c18/message-roundtrip", "protocol message {:?} does not survive encode/decode: {:?}", m, d);
    Ok(b)
}

impl Prop for Handshake {
    type Case = HCase;
    fn name(&self) -> &'static str {
        "handshake"
    }
    fn cases(&self, tier: Tier) -> u64 {
        tier.pick(150_000, 1_000_000)
    }
    fn strategy(&self, tier: Tier) -> BoxedStrategy<HCase> {
        let p = Profile::all();
        let max = tier.pick(5, 9);
        let step = prop_oneof![
            5 => any::<bool>().prop_map(|to| HStep::Deliver { to }),
            2 => (any::<bool>(), txn_ops(&p, 3)).prop_map(|(on, ops)| HStep::Edit { on, ops }),
        ];
        (
            cfgs_strategy(2..=2, false),
            any::<bool>(),
            prop::collection::vec(txn_ops(&p, 3), 0..max),
            prop::collection::vec(txn_ops(&p, 3), 0..max),
            prop::collection::vec(txn_ops(&p, 3), 0..max),
            prop::collection::vec(step, 0..16),
        )
            .prop_map(|(mut cfgs, cleanup, shared, pre_a, pre_b, steps)| {
                for c in cfgs.iter_mut() {
                    c.cleanup = cleanup;
                }
                HCase { cfgs, shared, pre_a, pre_b, steps }
            })
            .boxed()
    }

    fn check(&self, case: &HCase, st: &mut CaseStats) -> Result<(), Fail> {
        let clock = Arc::new(AtomicU64::new(1));
        let a = Peer::new(&case.cfgs[0], clock.clone());
        let b = Peer::new(&case.cfgs[1], clock.clone());
        let mut alloc = Alloc::default();
        // shared prefix: A edits, B receives everything
        for ops in case.shared.iter() {
            a.edit(ops, &mut alloc);
        }
        for u in a.out.borrow_mut().drain(..) {
            let upd = yrs::Update::decode_v1(&u).map_err(|e| Fail::new("c18/transport", format!("{}", e)))?;
            b.aw.doc().transact_mut().apply_update(upd).map_err(|e| Fail::new("c18/transport", format!("{}", e)))?;
        }
        b.out.borrow_mut().clear();
        // divergence
        for ops in case.pre_a.iter() {
            a.edit(ops, &mut alloc);
        }
        for ops in case.pre_b.iter() {
            b.edit(ops, &mut alloc);
        }
        a.out.borrow_mut().clear();
        b.out.borrow_mut().clear();
        let diverged = a.dump() != b.dump();
        // connect: both send SyncStep1 (+ awareness)
        let proto = DefaultProtocol;
        let mut to_a: VecDeque<Vec<u8>> = VecDeque::new();
        let mut to_b: VecDeque<Vec<u8>> = VecDeque::new();
        for (peer, queue) in [(&a, &mut to_b), (&b, &mut to_a)] {
            let mut e = EncoderV1::new();
            if let Err(err) = proto.start(&peer.aw, &mut e) {
                fail!("c18/protocol-error", "start failed: {}", err);
            }
            queue.push_back(e.to_vec());
        }
        let mut a = a;
        let mut b = b;
        let mut edits_during = 0;
        let mut step_iter = case.steps.iter();
        let mut guard = 0;
        loop {
            guard += 1;
            ensure!(guard < 500, "c18/no-quiescence", "the handshake does not come to rest");
            let step = match step_iter.next() {
                Some(s) => s.clone(),
                None => {
                    // drain deterministically
                    if !to_b.is_empty() {
                        HStep::Deliver { to: true }
                    } else if !to_a.is_empty() {
                        HStep::Deliver { to: false }
                    } else {
                        break;
                    }
                }
            };
            match step {
                HStep::Deliver { to } => {
                    // to == true: towards B
                    let (queue, peer, back) = if to { (&mut to_b, &mut b, &mut to_a) } else { (&mut to_a, &mut a, &mut to_b) };
                    let Some(payload) = queue.pop_front() else { continue };
                    let replies = match proto.handle(&mut peer.aw, &payload) {
                        Ok(r) => r,
                        Err(e) => fail!("c18/protocol-error", "handling a payload failed: {}", e),
                    };
                    for m in replies.iter() {
                        back.push_back(encode_checked(m)?);
                    }
                    // every transaction is forwarded as an Update message, also the ones that applied
                    // remote content (with automatic format clean-up such a transaction carries
                    // deletions of its own; re-sent known content is a no-op for the other side)
                    let emitted: Vec<Vec<u8>> = peer.out.borrow_mut().drain(..).collect();
                    for u in emitted {
                        back.push_back(encode_checked(&Message::Sync(SyncMessage::Update(u)))?);
                    }
                }
                HStep::Edit { on, ops } => {
                    let (peer, queue) = if on { (&a, &mut to_b) } else { (&b, &mut to_a) };
                    peer.edit(&ops, &mut alloc);
                    let emitted: Vec<Vec<u8>> = peer.out.borrow_mut().drain(..).collect();
                    for u in emitted {
                        queue.push_back(encode_checked(&Message::Sync(SyncMessage::Update(u)))?);
                        edits_during += 1;
                    }
                }
            }
        }
        let (da, db) = (a.dump(), b.dump());
        if da != db {
            fail!("c18/documents-differ", "after the handshake came to rest the two documents differ: {}", first_diff(&da, &db).unwrap_or_default());
        }
        let (sa, sb) = (sv_to_vec(&a.aw.doc().transact().state_vector()), sv_to_vec(&b.aw.doc().transact().state_vector()));
        ensure!(sa == sb, "c18/state-vectors-differ", "state vectors differ at rest: {:?} vs {:?}", sa, sb);
        ensure!(
            !a.aw.doc().transact().has_missing_updates() && !b.aw.doc().transact().has_missing_updates(),
            "c18/pending-at-rest",
            "a peer still reports missing updates at rest"
        );
        if diverged {
            st.hit("diverged_before_connect");
        }
        if edits_during > 0 {
            st.hit("edits_during_handshake");
            st.nt();
        }
        Ok(())
    }
}

// ------------------------------------------------------------------------------------------
// awareness
// ------------------------------------------------------------------------------------------

#[derive(Clone, Debug, Serialize, Deserialize)]
pub enum AStep {
    Set { c: u8, v: u8 },
    Clean { c: u8 },
    /// peer `c` declares peer `other` gone (timeout)
    Timeout { c: u8, other: u8 },
    /// peer `c` applies the k-th collected update
    Apply { c: u8, k: u16 },
    /// collect peer c's full update / update for some clients
    Collect { c: u8, only: Option<Vec<u8>> },
    Tick(u8),
}

#[derive(Clone, Debug, Serialize, Deserialize)]
pub struct ACase {
    pub peers: u8,
    pub steps: Vec<AStep>,
    pub order1: Vec<u16>,
    pub order2: Vec<u16>,
    pub dups: Vec<u16>,
}

pub struct AwarenessLww;

type Reg = BTreeMap<u64, (u32, Option<String>)>;

fn model_apply(reg: &mut Reg, own: Option<u64>, u: &AwarenessUpdate) {
    for (c, e) in u.clients.iter() {
        let c = c.get();
        let new: Option<String> = if e.json.as_ref() == "null" { None } else { Some(e.json.to_string()) };
        match reg.get_mut(&c) {
            None => {
                reg.insert(c, (e.clock, new));
            }
            Some(cur) => {
                let removal_tie = cur.0 == e.clock && new.is_none() && cur.1.is_some();
                if cur.0 < e.clock || removal_tie {
                    if new.is_none() && own == Some(c) && cur.1.is_some() {
                        // a peer never lets a remote message erase its own live state
                        cur.0 = e.clock + 1;
                    } else {
                        *cur = (e.clock, new);
                    }
                }
            }
        }
    }
}

fn snapshot(aw: &Awareness) -> Reg {
    aw.iter().map(|(c, s)| (c.get(), (s.clock, s.data.map(|d| d.to_string())))).collect()
}

fn same_reg(a: &Reg, b: &Reg) -> bool {
    // an entry that was only ever announced as removed may or may not be materialised
    let strip = |r: &Reg| -> Reg { r.iter().filter(|(_, v)| v.1.is_some() || v.0 > 0).map(|(k, v)| (*k, v.clone())).collect() };
    strip(a) == strip(b)
}

impl Prop for AwarenessLww {
    type Case = ACase;
    fn name(&self) -> &'static str {
        "awareness"
    }
    fn cases(&self, tier: Tier) -> u64 {
        tier.pick(500_000, 4_000_000)
    }
    fn strategy(&self, _tier: Tier) -> BoxedStrategy<ACase> {
        let step = prop_oneof![
            5 => (0u8..4, 0u8..4).prop_map(|(c, v)| AStep::Set { c, v }),
            2 => (0u8..4).prop_map(|c| AStep::Clean { c }),
            2 => (0u8..4, 0u8..4).prop_map(|(c, other)| AStep::Timeout { c, other }),
            5 => (0u8..4, any::<u16>()).prop_map(|(c, k)| AStep::Apply { c, k }),
            5 => (0u8..4, prop::option::of(prop::collection::vec(0u8..4, 1..3))).prop_map(|(c, only)| AStep::Collect { c, only }),
            1 => (1u8..50).prop_map(AStep::Tick),
        ];
        (
            2u8..=4,
            prop::collection::vec(step, 2..30),
            prop::collection::vec(any::<u16>(), 1..16),
            prop::collection::vec(any::<u16>(), 1..16),
            prop::collection::vec(any::<u16>(), 0..4),
        )
            .prop_map(|(peers, steps, order1, order2, dups)| ACase { peers, steps, order1, order2, dups })
            .boxed()
    }

    fn check(&self, case: &ACase, st: &mut CaseStats) -> Result<(), Fail> {
        let clock = Arc::new(AtomicU64::new(1000));
        let n = case.peers as usize;
        let mk = |client: u64| {
            let c = clock.clone();
            Awareness::with_clock(Cfg { client, utf16: false, skip_gc: false, cleanup: false }.make_doc(), move || c.load(Ordering::SeqCst))
        };
        let mut peers: Vec<Awareness> = (0..n).map(|i| mk(10 + i as u64)).collect();
        let mut models: Vec<Reg> = vec![Reg::new(); n];
        let mut collected: Vec<AwarenessUpdate> = Vec::new();
        for (si, s) in case.steps.iter().enumerate() {
            let when = format!("step {} {:?}", si, s);
            let before: Vec<Reg> = peers.iter().map(snapshot).collect();
            match s {
                AStep::Set { c, v } => {
                    let i = *c as usize % n;
                    peers[i].set_local_state_raw(format!("{{\"v\":{}}}", v));
                    let own = 10 + i as u64;
                    let e = models[i].entry(own).or_insert((0, None));
                    *e = (e.0 + 1, Some(format!("{{\"v\":{}}}", v)));
                }
                AStep::Clean { c } => {
                    let i = *c as usize % n;
                    peers[i].clean_local_state();
                    let own = 10 + i as u64;
                    let e = models[i].entry(own).or_insert((0, None));
                    *e = (e.0 + 1, None);
                }
                AStep::Timeout { c, other } => {
                    let i = *c as usize % n;
                    let o = *other as usize % n;
                    if i != o {
                        peers[i].remove_state(ClientID::new(10 + o as u64));
                        let e = models[i].entry(10 + o as u64).or_insert((0, None));
                        *e = (e.0 + 1, None);
                    }
                }
                AStep::Collect { c, only } => {
                    let i = *c as usize % n;
                    let u = match only {
                        None => peers[i].update(),
                        Some(cs) => peers[i].update_with_clients(cs.iter().map(|x| ClientID::new(10 + (*x as usize % n) as u64))),
                    };
                    if let Ok(u) = u {
                        // every awareness update survives encode/decode
                        let d = AwarenessUpdate::decode_v1(&u.encode_v1());
                        ensure!(d.as_ref().ok() == Some(&u), "c18/awareness-update-roundtrip", "{}: {:?} -> {:?}", when, u, d);
                        collected.push(u);
                    }
                }
                AStep::Apply { c, k } => {
                    let i = *c as usize % n;
                    if !collected.is_empty() {
                        let u = collected[pick(*k, collected.len())].clone();
                        model_apply(&mut models[i], Some(10 + i as u64), &u);
                        if let Err(e) = peers[i].apply_update(u) {
                            fail!("c18/awareness-error", "{}: {}", when, e);
                        }
                    }
                }
                AStep::Tick(ms) => {
                    clock.fetch_add(*ms as u64, Ordering::SeqCst);
                }
            }
            for i in 0..n {
                let now = snapshot(&peers[i]);
                // clocks never go backwards
                for (c, (k, _)) in before[i].iter() {
                    let k2 = now.get(c).map(|x| x.0).unwrap_or(0);
                    ensure!(k2 >= *k, "c18/awareness-clock-decreased", "{}: on peer {} the clock of client {} went from {} to {}", when, i, c, k, k2);
                }
                // own live state survives remote updates
                if let AStep::Apply { .. } = s {
                    let own = 10 + i as u64;
                    if let Some((_, Some(_))) = before[i].get(&own) {
                        ensure!(matches!(now.get(&own), Some((_, Some(_)))), "c18/awareness-own-state-erased", "{}: peer {} lost its own live state to a remote awareness update", when, i);
                    }
                }
                ensure!(same_reg(&now, &models[i]), "c18/awareness-model", "{}: peer {} holds {:?}, the last-writer-wins register model says {:?}", when, i, now, models[i]);
            }
        }
        // passive observers: order-insensitive and idempotent
        if collected.len() >= 2 {
            let perm = |keys: &[u16]| -> Vec<usize> {
                let mut idx: Vec<usize> = (0..collected.len()).collect();
                idx.sort_by_key(|i| (keys[*i % keys.len()], *i));
                idx
            };
            let mut finals: Vec<Reg> = Vec::new();
            for (which, keys) in [&case.order1, &case.order2].iter().enumerate() {
                let mut obs = mk(99);
                let mut order = perm(keys);
                if which == 1 {
                    for d in case.dups.iter() {
                        order.push(pick(*d, collected.len()));
                    }
                }
                for i in order {
                    if let Err(e) = obs.apply_update(collected[i].clone()) {
                        fail!("c18/awareness-error", "observer: {}", e);
                    }
                }
                finals.push(snapshot(&obs));
            }
            ensure!(
                same_reg(&finals[0], &finals[1]),
                "c18/awareness-order-dependent",
                "two observers that applied the same awareness updates in different orders (the second with duplicates) ended differently: {:?} vs {:?}",
                finals[0],
                finals[1]
            );
            // non-trivial: >=2 updates for one client with equal or inverted clocks
            let mut per_client: BTreeMap<u64, Vec<u32>> = BTreeMap::new();
            for u in collected.iter() {
                for (c, e) in u.clients.iter() {
                    per_client.entry(c.get()).or_default().push(e.clock);
                }
            }
            if per_client.values().any(|v| v.len() >= 2) {
                st.nt();
                st.hit("clients_with_several_updates");
            }
        }
        let _ = AwarenessUpdateEntry { clock: 0, json: "null".into() };
        Ok(())
    }
}

pub fn property() -> Property {
    Property {
        id: "C18",
        level: "exploration",
        rule: "handshake: two peers (Awareness + DefaultProtocol) with a generated shared prefix and generated divergent edits; both send their start payload; a generated interleaving of 'deliver next payload towards A/B' and 'local edit on A/B' (forwarded as Update message built from observe_update_v1) is run, then the queues are drained; every message put on a channel is encoded and decoded and compared; at rest documents (dump, state vector) are equal and nothing is pending.  awareness: 2..4 peers with a harness clock perform set / clean / timeout removal / collect update (all or selected clients) / apply collected update; after every step each peer is compared with a per-client (clock, null-wins-ties) register model incl. the own-state guard, clocks never decrease; two passive observers apply all collected updates in two generated orders (one with duplicates) and must end equal.  Non-trivial = an edit was made while the handshake was running / a client has several updates; distinct = distinct generated case".into(),
        assumptions: vec!["channels are reliable and ordered (two FIFO queues owned by the harness)".into()],
        parts: vec![Box::new(Part(Handshake)), Box::new(Part(AwarenessLww))],
    }
}
