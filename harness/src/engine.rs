//! Seeded, sharded property runner with shrinking, known-finding matching, replay files and
//! evidence output.  All randomness comes from proptest `TestRunner`s seeded from VERIF_SEED.

use proptest::strategy::{BoxedStrategy, Strategy, ValueTree};
use proptest::test_runner::{Config, RngAlgorithm, RngSeed, TestRng, TestRunner};
use serde::de::DeserializeOwned;
use serde::Serialize;
use serde_json::{json, Value};
use std::cell::RefCell;
use std::collections::{BTreeMap, HashSet};
use std::fmt::Debug;
use std::hash::{Hash, Hasher};
use std::panic::{catch_unwind, AssertUnwindSafe};
use std::path::{Path, PathBuf};
use std::sync::atomic::{AtomicBool, AtomicU64, Ordering};
use std::sync::Mutex;
use std::time::Instant;

pub const VERIF_ROOT: &str = "/verif";
pub const SHARDS: u64 = 16;

#[derive(Clone, Copy, Debug, PartialEq, Eq)]
pub enum Tier {
    Quick,
    Thorough,
}

impl Tier {
    pub fn name(&self) -> &'static str {
        match self {
            Tier::Quick => "quick",
            Tier::Thorough => "thorough",
        }
    }
    /// pick by tier
    pub fn pick<T>(&self, quick: T, thorough: T) -> T {
        match self {
            Tier::Quick => quick,
            Tier::Thorough => thorough,
        }
    }
}

/// Failure of an oracle.  `sig` is the signature used for known-finding matching: oracle id,
/// failure class and a root-cause discriminator; `msg` is free text for humans.
#[derive(Debug, Clone)]
pub struct Fail {
    pub sig: String,
    pub msg: String,
}

impl Fail {
    pub fn new(sig: impl Into<String>, msg: impl Into<String>) -> Self {
        Fail {
            sig: sig.into(),
            msg: msg.into(),
        }
    }
}

#[macro_export]
macro_rules! ensure {
    ($cond:expr, $sig:expr, $($arg:tt)*) => {
        if !($cond) {
            return Err($crate::engine::Fail::new($sig, format!($($arg)*)));
        }
    };
}

#[macro_export]
macro_rules! fail {
    ($sig:expr, $($arg:tt)*) => {
        return Err($crate::engine::Fail::new($sig, format!($($arg)*)))
    };
}

/// Per-case statistics filled in by a property's check.
#[derive(Default, Debug)]
pub struct CaseStats {
    pub nontrivial: bool,
    pub classes: Vec<(&'static str, u64)>,
    /// known findings that were hit and carved out inside the case (signature → count)
    pub known_hits: Vec<String>,
}

impl CaseStats {
    pub fn hit(&mut self, class: &'static str) {
        self.add(class, 1);
    }
    pub fn add(&mut self, class: &'static str, n: u64) {
        for c in self.classes.iter_mut() {
            if c.0 == class {
                c.1 += n;
                return;
            }
        }
        self.classes.push((class, n));
    }
    pub fn nt(&mut self) {
        self.nontrivial = true;
    }
    pub fn known(&mut self, sig: &str) {
        self.known_hits.push(sig.to_string());
    }
}

pub trait Prop: Sync + Send {
    type Case: Clone + Debug + Serialize + DeserializeOwned + Send;
    /// name of this part (unique inside of the property)
    fn name(&self) -> &'static str;
    fn cases(&self, tier: Tier) -> u64;
    fn strategy(&self, tier: Tier) -> BoxedStrategy<Self::Case>;
    fn check(&self, case: &Self::Case, st: &mut CaseStats) -> Result<(), Fail>;
    /// normalised form used for distinctness counting (default: the case itself)
    fn normal_hash(&self, case: &Self::Case) -> u64 {
        hash_json(case)
    }
}

pub fn hash_json<T: Serialize>(v: &T) -> u64 {
    let bytes = serde_json::to_vec(v).unwrap_or_default();
    let mut h = std::collections::hash_map::DefaultHasher::new();
    bytes.hash(&mut h);
    h.finish()
}

#[derive(Default, Debug)]
pub struct PartReport {
    pub name: String,
    pub evaluations: u64,
    pub nontrivial: HashSet<u64>,
    pub counters: BTreeMap<String, u64>,
    pub samples: Vec<Value>,
    pub known_hits: BTreeMap<String, u64>,
    pub violations: Vec<Violation>,
    pub exhaustive: bool,
    pub notes: Vec<String>,
}

#[derive(Debug, Clone)]
pub struct Violation {
    pub sig: String,
    pub msg: String,
    pub replay: PathBuf,
}

impl PartReport {
    pub fn new(name: &str) -> Self {
        PartReport {
            name: name.to_string(),
            ..Default::default()
        }
    }
    pub fn absorb_case(&mut self, st: &CaseStats, hash: u64) {
        self.evaluations += 1;
        if st.nontrivial {
            self.nontrivial.insert(hash);
        }
        for (c, n) in st.classes.iter() {
            *self.counters.entry(c.to_string()).or_default() += *n;
        }
        for k in st.known_hits.iter() {
            *self.known_hits.entry(k.clone()).or_default() += 1;
        }
    }
    pub fn merge(&mut self, other: PartReport) {
        self.evaluations += other.evaluations;
        self.nontrivial.extend(other.nontrivial);
        for (k, v) in other.counters {
            *self.counters.entry(k).or_default() += v;
        }
        for (k, v) in other.known_hits {
            *self.known_hits.entry(k).or_default() += v;
        }
        for s in other.samples {
            if self.samples.len() < 4 {
                self.samples.push(s);
            }
        }
        self.violations.extend(other.violations);
        self.notes.extend(other.notes);
    }
}

/// Environment of one run.
pub struct RunEnv {
    pub property: String,
    pub tier: Tier,
    pub seed: u64,
    pub jobs: usize,
    pub known: crate::known::Known,
    pub trace: bool,
    pub stop: AtomicBool,
    pub scale: f64,
}

impl RunEnv {
    pub fn replay_dir(&self) -> PathBuf {
        Path::new(VERIF_ROOT).join("replays").join(&self.property)
    }
    pub fn trace_dir(&self) -> PathBuf {
        Path::new(VERIF_ROOT)
            .join("target")
            .join("trace")
            .join(&self.property)
    }
    pub fn scaled(&self, n: u64) -> u64 {
        ((n as f64) * self.scale).max(1.0) as u64
    }
}

/// Object-safe view of a part of a property.
pub trait DynPart: Sync + Send {
    fn name(&self) -> String;
    fn run(&self, env: &RunEnv) -> PartReport;
    /// replay a stored case; Ok(None) = passes, Ok(Some(fail)) = fails
    fn replay(&self, case: &Value) -> Result<Option<Fail>, String>;
    /// one case of the part's own (quick-tier) strategy from a seed, as JSON — corpus seeds and
    /// donors of the structure-aware mutator of the coverage-guided campaigns
    fn generate(&self, _seed: u64) -> Option<Value> {
        None
    }
}

pub struct Part<P: Prop>(pub P);

thread_local! {
    static LAST_PANIC: RefCell<Option<(String, String)>> = RefCell::new(None);
}

pub fn install_panic_hook() {
    std::panic::set_hook(Box::new(|info| {
        let loc = info
            .location()
            .map(|l| format!("{}:{}", l.file(), l.line()))
            .unwrap_or_else(|| "?".into());
        let msg = if let Some(s) = info.payload().downcast_ref::<&str>() {
            s.to_string()
        } else if let Some(s) = info.payload().downcast_ref::<String>() {
            s.clone()
        } else {
            "<non-string panic>".to_string()
        };
        LAST_PANIC.with(|p| *p.borrow_mut() = Some((loc, msg)));
    }));
}

/// strip the repository prefix and line noise so that a panic signature is stable
fn panic_site(loc: &str) -> String {
    let l = loc.strip_prefix("/repo/").unwrap_or(loc);
    l.to_string()
}

pub fn run_check<P: Prop>(p: &P, case: &P::Case, st: &mut CaseStats) -> Result<(), Fail> {
    LAST_PANIC.with(|p| *p.borrow_mut() = None);
    let r = catch_unwind(AssertUnwindSafe(|| p.check(case, st)));
    match r {
        Ok(r) => r,
        Err(_) => {
            let (loc, msg) = LAST_PANIC
                .with(|p| p.borrow_mut().take())
                .unwrap_or(("?".into(), "?".into()));
            let site = panic_site(&loc);
            let in_repo = loc.starts_with("/repo/") || loc.starts_with("yrs/");
            let class = if in_repo { "panic" } else { "harness-panic" };
            Err(Fail::new(
                format!("{}/{}", class, site),
                format!("panic at {}: {}", loc, msg),
            ))
        }
    }
}

pub fn splitmix(mut x: u64) -> u64 {
    x = x.wrapping_add(0x9E3779B97F4A7C15);
    let mut z = x;
    z = (z ^ (z >> 30)).wrapping_mul(0xBF58476D1CE4E5B9);
    z = (z ^ (z >> 27)).wrapping_mul(0x94D049BB133111EB);
    z ^ (z >> 31)
}

pub fn shard_seed(seed: u64, property: &str, part: &str, shard: u64) -> [u8; 32] {
    let mut h = std::collections::hash_map::DefaultHasher::new();
    property.hash(&mut h);
    part.hash(&mut h);
    let base = splitmix(seed ^ h.finish()) ^ splitmix(shard.wrapping_mul(0x1234567));
    let mut out = [0u8; 32];
    let mut x = base;
    for i in 0..4 {
        x = splitmix(x);
        out[i * 8..(i + 1) * 8].copy_from_slice(&x.to_le_bytes());
    }
    out
}

pub fn make_runner(seed: [u8; 32]) -> TestRunner {
    let cfg = Config {
        failure_persistence: None,
        rng_seed: RngSeed::Fixed(0),
        ..Config::default()
    };
    let rng = TestRng::from_seed(RngAlgorithm::ChaCha, &seed);
    TestRunner::new_with_rng(cfg, rng)
}

fn truncate_sample(v: Value) -> Value {
    let s = serde_json::to_string(&v).unwrap_or_default();
    if s.len() > 6000 {
        let mut cut = 6000;
        while !s.is_char_boundary(cut) {
            cut -= 1;
        }
        json!({ "truncated_json": s[..cut].to_string(), "full_len": s.len() })
    } else {
        v
    }
}

static REPLAY_COUNTER: AtomicU64 = AtomicU64::new(0);

pub fn write_replay(
    env: &RunEnv,
    part: &str,
    case: &Value,
    fail: &Fail,
    tag: &str,
) -> std::io::Result<PathBuf> {
    let dir = env.replay_dir();
    std::fs::create_dir_all(&dir)?;
    let n = REPLAY_COUNTER.fetch_add(1, Ordering::SeqCst);
    let path = dir.join(format!(
        "fail-{}-{}-s{}-{}{}.json",
        part,
        env.tier.name(),
        env.seed,
        tag,
        n
    ));
    let doc = json!({
        "property": env.property,
        "part": part,
        "expect": "pass",
        "sig": fail.sig,
        "msg": fail.msg,
        "case": case,
    });
    std::fs::write(&path, serde_json::to_vec_pretty(&doc).unwrap())?;
    Ok(path)
}

impl<P: Prop> Part<P> {
    /// is this failure one that must be reported (not a listed known finding)?
    fn reportable(&self, env: &RunEnv, f: &Fail) -> bool {
        !env.known.is_known(&env.property, &f.sig)
    }

    fn run_shard(&self, env: &RunEnv, shard: u64, cases: u64) -> PartReport {
        let p = &self.0;
        let mut rep = PartReport::new(p.name());
        let mut runner = make_runner(shard_seed(env.seed, &env.property, p.name(), shard));
        let strategy = p.strategy(env.tier);
        let trace_file = env
            .trace_dir()
            .join(format!("{}-{}.json", p.name(), shard));
        if env.trace {
            let _ = std::fs::create_dir_all(env.trace_dir());
        }
        for i in 0..cases {
            if env.stop.load(Ordering::Relaxed) {
                break;
            }
            let mut tree = match strategy.new_tree(&mut runner) {
                Ok(t) => t,
                Err(e) => {
                    rep.notes.push(format!("generator rejected: {}", e));
                    continue;
                }
            };
            let case = tree.current();
            if env.trace {
                let doc = json!({"property": env.property, "part": p.name(), "expect":"pass", "case": &case});
                let _ = std::fs::write(&trace_file, serde_json::to_vec(&doc).unwrap());
            }
            let mut st = CaseStats::default();
            let r = run_check(p, &case, &mut st);
            let hash = p.normal_hash(&case);
            rep.absorb_case(&st, hash);
            if st.nontrivial && rep.samples.len() < 2 && shard < 2 {
                rep.samples
                    .push(truncate_sample(serde_json::to_value(&case).unwrap_or(Value::Null)));
            }
            if let Err(f) = r {
                if !self.reportable(env, &f) {
                    *rep.known_hits.entry(f.sig.clone()).or_default() += 1;
                    continue;
                }
                // shrink
                let mut best = case.clone();
                let mut best_fail = f.clone();
                let mut steps = 0u32;
                let t0 = Instant::now();
                loop {
                    if steps > 4000 || t0.elapsed().as_secs() > 120 {
                        break;
                    }
                    if !tree.simplify() {
                        break;
                    }
                    loop {
                        steps += 1;
                        let cand = tree.current();
                        let mut st2 = CaseStats::default();
                        match run_check(p, &cand, &mut st2) {
                            // keep the root cause: only candidates failing with the same signature count
                            Err(f2) if self.reportable(env, &f2) && f2.sig == f.sig => {
                                best = cand;
                                best_fail = f2;
                                break;
                            }
                            _ => {
                                if !tree.complicate() {
                                    break;
                                }
                            }
                        }
                        if steps > 4000 || t0.elapsed().as_secs() > 120 {
                            break;
                        }
                    }
                }
                let case_json = serde_json::to_value(&best).unwrap_or(Value::Null);
                let path = write_replay(
                    env,
                    p.name(),
                    &case_json,
                    &best_fail,
                    &format!("sh{}c{}-", shard, i),
                )
                .unwrap_or_else(|_| PathBuf::from("/verif/replays/unwritable"));
                rep.violations.push(Violation {
                    sig: best_fail.sig.clone(),
                    msg: format!(
                        "{} (original failure before shrinking: [{}] {})",
                        best_fail.msg, f.sig, f.msg
                    ),
                    replay: path,
                });
                env.stop.store(true, Ordering::Relaxed);
                // Other shards may be stuck inside the library (a defect that breaks this case can
                // make another one loop forever): after a grace period the violation found here is
                // reported anyway instead of ending in the watchdog as "inconclusive".
                arm_violation_deadline(&env.property, &best_fail.sig, &rep.violations.last().unwrap().msg, &rep.violations.last().unwrap().replay);
                break;
            }
        }
        rep
    }
}

static PENDING_VIOLATION: Mutex<Option<(Instant, String)>> = Mutex::new(None);

fn arm_violation_deadline(property: &str, sig: &str, msg: &str, replay: &Path) {
    let text = format!("  failure [{}]: {}\nVIOLATION property={} replay={}", sig, msg, property, replay.display());
    let mut g = PENDING_VIOLATION.lock().unwrap();
    if g.is_none() {
        *g = Some((Instant::now(), text));
        std::thread::spawn(|| loop {
            std::thread::sleep(std::time::Duration::from_secs(1));
            let due = PENDING_VIOLATION.lock().unwrap().as_ref().map(|(t, _)| t.elapsed().as_secs() >= 45).unwrap_or(false);
            if due {
                if let Some((_, text)) = PENDING_VIOLATION.lock().unwrap().take() {
                    println!("note: other shards did not stop within 45 s of the first violation (stuck inside a case); reporting what was found");
                    println!("{}", text);
                }
                std::process::exit(1);
            }
        });
    }
}

/// the normal reporting path got there first
pub fn disarm_violation_deadline() {
    *PENDING_VIOLATION.lock().unwrap() = None;
}

impl<P: Prop> DynPart for Part<P> {
    fn name(&self) -> String {
        self.0.name().to_string()
    }

    fn run(&self, env: &RunEnv) -> PartReport {
        let total = env.scaled(self.0.cases(env.tier));
        let per = (total + SHARDS - 1) / SHARDS;
        let next = AtomicU64::new(0);
        let merged = Mutex::new(PartReport::new(self.0.name()));
        std::thread::scope(|s| {
            for _ in 0..env.jobs.max(1) {
                let b = std::thread::Builder::new().stack_size(256 << 20);
                b.spawn_scoped(s, || loop {
                    let shard = next.fetch_add(1, Ordering::SeqCst);
                    if shard >= SHARDS {
                        break;
                    }
                    let rep = self.run_shard(env, shard, per);
                    merged.lock().unwrap().merge(rep);
                })
                .expect("spawn");
            }
        });
        merged.into_inner().unwrap()
    }

    fn replay(&self, case: &Value) -> Result<Option<Fail>, String> {
        let case: P::Case =
            serde_json::from_value(case.clone()).map_err(|e| format!("bad case json: {}", e))?;
        let mut st = CaseStats::default();
        match run_check(&self.0, &case, &mut st) {
            Ok(()) => Ok(None),
            Err(f) => Ok(Some(f)),
        }
    }

    fn generate(&self, seed: u64) -> Option<Value> {
        let mut bytes = [0u8; 32];
        let mut x = seed;
        for chunk in bytes.chunks_mut(8) {
            x = splitmix(x);
            chunk.copy_from_slice(&x.to_le_bytes());
        }
        let mut runner = make_runner(bytes);
        let tree = self.0.strategy(Tier::Quick).new_tree(&mut runner).ok()?;
        serde_json::to_value(&tree.current()).ok()
    }
}

/// One execution of a coverage-guided campaign (see `/verif/fuzz`): the input is a case of the part
/// as JSON (what the replay files hold).  Returns `Err(message)` for a failure that is not a listed
/// known finding; inputs that are not a case of this part are ignored.
pub fn fuzz_one(prop: &Property, part: &str, known: &crate::known::Known, data: &[u8], out_dir: &std::path::Path) -> Result<(), String> {
    let Some(p) = prop.parts.iter().find(|p| p.name() == part) else { return Ok(()) };
    let Ok(case) = serde_json::from_slice::<Value>(data) else { return Ok(()) };
    match p.replay(&case) {
        Ok(None) | Err(_) => Ok(()),
        Ok(Some(f)) if known.is_known(prop.id, &f.sig) => Ok(()),
        Ok(Some(f)) => {
            let _ = std::fs::create_dir_all(out_dir);
            let path = out_dir.join(format!("fail-fuzz-{}-{:016x}.json", part, hash_json(&case)));
            let doc = json!({"property": prop.id, "part": part, "expect": "pass", "sig": f.sig, "msg": f.msg, "case": case});
            let _ = std::fs::write(&path, serde_json::to_vec_pretty(&doc).unwrap_or_default());
            Err(format!("[{}] {} (replay {})", f.sig, f.msg, path.display()))
        }
    }
}

// ---- structure-aware mutation of cases (generic: works on the JSON image of any case type) ----

#[derive(Clone, Debug)]
enum JSeg {
    Key(String),
    Idx(usize),
}

fn jget<'a>(v: &'a Value, path: &[JSeg]) -> Option<&'a Value> {
    let mut cur = v;
    for s in path {
        cur = match s {
            JSeg::Key(k) => cur.get(k.as_str())?,
            JSeg::Idx(i) => cur.get(*i)?,
        };
    }
    Some(cur)
}

fn jget_mut<'a>(v: &'a mut Value, path: &[JSeg]) -> Option<&'a mut Value> {
    let mut cur = v;
    for s in path {
        cur = match s {
            JSeg::Key(k) => cur.get_mut(k.as_str())?,
            JSeg::Idx(i) => cur.get_mut(*i)?,
        };
    }
    Some(cur)
}

fn jcollect(v: &Value, path: &mut Vec<JSeg>, arrays: &mut Vec<Vec<JSeg>>, nums: &mut Vec<Vec<JSeg>>, bools: &mut Vec<Vec<JSeg>>, all: &mut Vec<Vec<JSeg>>) {
    if !path.is_empty() {
        all.push(path.clone());
    }
    match v {
        Value::Array(a) => {
            arrays.push(path.clone());
            for (i, x) in a.iter().enumerate() {
                path.push(JSeg::Idx(i));
                jcollect(x, path, arrays, nums, bools, all);
                path.pop();
            }
        }
        Value::Object(m) => {
            for (k, x) in m.iter() {
                // replica configurations are preconditions of a case, not part of what is searched:
                // client ids must stay distinct and below 2^53, some parts require a GC setting
                if FROZEN_KEYS.contains(&k.as_str()) {
                    continue;
                }
                path.push(JSeg::Key(k.clone()));
                jcollect(x, path, arrays, nums, bools, all);
                path.pop();
            }
        }
        Value::Number(n) if n.is_u64() => nums.push(path.clone()),
        Value::Bool(_) => bools.push(path.clone()),
        _ => {}
    }
}

/// object keys the mutator never descends into
const FROZEN_KEYS: [&str; 11] = ["cfgs", "observers", "client", "skip_gc", "utf16", "cleanup", "scope", "off", "n", "peers", "Num"];

/// 1–3 structural mutations: remove / duplicate / swap / truncate elements of a list (steps,
/// operations, schedules …), insert an element or graft a subtree taken from the same place of a
/// freshly generated `donor` case, tweak a number, flip a flag.  Enum variants stay well-formed
/// because only whole elements and subtrees found under the same path are moved around; a result
/// that is not a case any more is ignored by the target.
pub fn mutate_case(case: &Value, donor: &Value, seed: u64) -> Value {
    let mut out = case.clone();
    let mut r = seed;
    let mut next = move || {
        r = splitmix(r);
        r
    };
    let pick = |n: usize, x: u64| (x % n.max(1) as u64) as usize;
    let n_mut = 1 + next() % 3;
    for _ in 0..n_mut {
        let (mut arrays, mut nums, mut bools, mut all) = (Vec::new(), Vec::new(), Vec::new(), Vec::new());
        jcollect(&out, &mut Vec::new(), &mut arrays, &mut nums, &mut bools, &mut all);
        match next() % 9 {
            0 | 1 | 2 | 7 | 8 if !arrays.is_empty() => {
                let kind = next() % 5;
                let path = arrays[pick(arrays.len(), next())].clone();
                let donor_arr: Option<Vec<Value>> = jget(donor, &path).and_then(|d| d.as_array().cloned());
                let (a1, a2) = (next(), next());
                if let Some(Value::Array(a)) = jget_mut(&mut out, &path) {
                    match kind {
                        // (lists never become empty: several case types index their schedules modulo the length)
                        0 if a.len() >= 2 => {
                            let i = pick(a.len(), a1);
                            a.remove(i);
                        }
                        1 if !a.is_empty() && a.len() < 64 => {
                            let i = pick(a.len(), a1);
                            let x = a[i].clone();
                            a.insert(i, x);
                        }
                        2 if a.len() >= 2 => {
                            let i = pick(a.len(), a1);
                            let j = pick(a.len(), a2);
                            a.swap(i, j);
                        }
                        3 if a.len() >= 2 => {
                            let keep = 1 + pick(a.len() - 1, a1);
                            a.truncate(keep);
                        }
                        _ => {
                            if let Some(d) = donor_arr {
                                if !d.is_empty() && a.len() < 64 {
                                    let x = d[pick(d.len(), a1)].clone();
                                    let at = pick(a.len() + 1, a2);
                                    a.insert(at, x);
                                }
                            }
                        }
                    }
                }
            }
            3 | 4 if !all.is_empty() => {
                // graft the donor's subtree found under the same path
                let path = all[pick(all.len(), next())].clone();
                if let Some(d) = jget(donor, &path).cloned() {
                    if let Some(slot) = jget_mut(&mut out, &path) {
                        *slot = d;
                    }
                }
            }
            5 if !nums.is_empty() => {
                let path = nums[pick(nums.len(), next())].clone();
                let dv = jget(donor, &path).and_then(|d| d.as_u64());
                let how = next() % 8;
                if let Some(slot) = jget_mut(&mut out, &path) {
                    let v = slot.as_u64().unwrap_or(0);
                    let nv = match how {
                        0 => 0,
                        1 => v.saturating_add(1),
                        2 => v.saturating_sub(1),
                        3 => v / 2,
                        4 => 65_535.min(v.saturating_mul(2)).max(1),
                        5 => 65_535,
                        6 => 32_768,
                        _ => dv.unwrap_or(v),
                    };
                    *slot = Value::from(nv);
                }
            }
            6 if !bools.is_empty() => {
                let path = bools[pick(bools.len(), next())].clone();
                if let Some(slot) = jget_mut(&mut out, &path) {
                    if let Some(b) = slot.as_bool() {
                        *slot = Value::Bool(!b);
                    }
                }
            }
            _ => {}
        }
    }
    out
}

/// A property = list of parts + metadata for the evidence file.
pub struct Property {
    pub id: &'static str,
    pub level: &'static str,
    pub rule: String,
    pub assumptions: Vec<String>,
    pub parts: Vec<Box<dyn DynPart>>,
}

pub struct RunOutcome {
    pub exit: i32,
}

fn read_json(path: &Path) -> Option<Value> {
    let bytes = std::fs::read(path).ok()?;
    serde_json::from_slice(&bytes).ok()
}

/// Replays every stored file of the property.  Returns violations.
fn run_replays(prop: &Property, env: &RunEnv, out: &mut Vec<String>) -> (u64, Vec<Violation>) {
    let mut n = 0;
    let mut violations = Vec::new();
    let dir = env.replay_dir();
    let mut files: Vec<PathBuf> = std::fs::read_dir(&dir)
        .map(|rd| rd.filter_map(|e| e.ok().map(|e| e.path())).collect())
        .unwrap_or_default();
    files.sort();
    for f in files {
        if f.extension().map(|e| e != "json").unwrap_or(true) {
            continue;
        }
        let name = f.file_name().unwrap().to_string_lossy().to_string();
        // failures written by earlier runs are not regression inputs until renamed
        if name.starts_with("fail-") {
            continue;
        }
        let Some(doc) = read_json(&f) else {
            out.push(format!("note: unreadable replay {}", f.display()));
            continue;
        };
        let part = doc["part"].as_str().unwrap_or("");
        let expect = doc["expect"].as_str().unwrap_or("pass");
        let Some(p) = prop.parts.iter().find(|p| p.name() == part) else {
            out.push(format!("note: replay {} names unknown part {}", name, part));
            continue;
        };
        n += 1;
        match p.replay(&doc["case"]) {
            Err(e) => out.push(format!("note: replay {}: {}", name, e)),
            Ok(None) => {
                if let Some(sig) = expect.strip_prefix("known:") {
                    out.push(format!(
                        "note: known finding {} no longer reproduces from {}",
                        sig, name
                    ));
                }
            }
            Ok(Some(fail)) => {
                if env.known.is_known(&env.property, &fail.sig) {
                    // handled by caller through known-finding lines
                    let _ = expect;
                } else {
                    violations.push(Violation {
                        sig: fail.sig,
                        msg: fail.msg,
                        replay: f.clone(),
                    });
                }
            }
        }
    }
    (n, violations)
}

pub fn run_property(prop: &Property, env: &RunEnv) -> RunOutcome {
    let t0 = Instant::now();
    let mut lines = Vec::new();
    let mut all = Vec::new();
    let mut violations: Vec<Violation> = Vec::new();

    // 1. known findings: replay their reproducers, print a line for each
    let mut known_reproduced: BTreeMap<String, bool> = BTreeMap::new();
    for k in env.known.known_for(&env.property) {
        let mut reproduced = false;
        if let Some(rp) = &k.replay {
            let path = Path::new(VERIF_ROOT).join(rp);
            if let Some(doc) = read_json(&path) {
                let part = doc["part"].as_str().unwrap_or("");
                if let Some(p) = prop.parts.iter().find(|p| p.name() == part) {
                    if let Ok(Some(f)) = p.replay(&doc["case"]) {
                        if f.sig == k.signature {
                            reproduced = true;
                        } else if !env.known.is_known(&env.property, &f.sig) {
                            violations.push(Violation {
                                sig: f.sig,
                                msg: f.msg,
                                replay: path.clone(),
                            });
                        }
                    }
                }
            }
        }
        known_reproduced.insert(k.signature.clone(), reproduced);
    }

    // 2. regression replays
    let (n_replays, v) = run_replays(prop, env, &mut lines);
    violations.extend(v);

    // 3. generated search
    if violations.is_empty() {
        for part in prop.parts.iter() {
            if env.stop.load(Ordering::Relaxed) {
                break;
            }
            let rep = part.run(env);
            // one (the first reported) violation per part is enough; later parts are skipped
            violations.extend(rep.violations.iter().take(1).cloned());
            let failed = !rep.violations.is_empty();
            all.push(rep);
            if failed {
                break;
            }
        }
    }

    // summarise
    let mut evaluations = n_replays;
    let mut nontrivial: HashSet<u64> = HashSet::new();
    let mut counters = BTreeMap::new();
    let mut samples = Vec::new();
    let mut known_hits: BTreeMap<String, u64> = BTreeMap::new();
    let mut parts_json = Vec::new();
    let mut exhaustive_parts = Vec::new();
    for rep in all.iter() {
        evaluations += rep.evaluations;
        for h in rep.nontrivial.iter() {
            nontrivial.insert(h ^ hash_json(&rep.name));
        }
        for (k, v) in rep.counters.iter() {
            *counters
                .entry(format!("{}.{}", rep.name, k))
                .or_insert(0u64) += *v;
        }
        for s in rep.samples.iter() {
            if samples.len() < 6 {
                samples.push(json!({"part": rep.name, "case": s}));
            }
        }
        for (k, v) in rep.known_hits.iter() {
            *known_hits.entry(k.clone()).or_default() += *v;
        }
        if rep.exhaustive {
            exhaustive_parts.push(rep.name.clone());
        }
        parts_json.push(json!({
            "part": rep.name,
            "evaluations": rep.evaluations,
            "distinct_nontrivial": rep.nontrivial.len(),
            "exhaustive": rep.exhaustive,
            "notes": rep.notes.iter().take(5).collect::<Vec<_>>(),
        }));
    }

    for k in env.known.known_for(&env.property) {
        let reproduced = known_reproduced.get(&k.signature).copied().unwrap_or(false);
        let hits = known_hits.get(&k.signature).copied().unwrap_or(0);
        if reproduced || hits > 0 {
            println!(
                "KNOWN-FINDING: property={} {} [{}; signature {}; reproducer {}; hit {} times in generated search]",
                env.property,
                k.what,
                k.id,
                k.signature,
                if reproduced { "fails as recorded" } else { "not run" },
                hits
            );
        } else {
            println!(
                "note: listed known finding {} ({}) did not reproduce in this run",
                k.id, k.signature
            );
        }
    }
    for l in lines {
        println!("{}", l);
    }
    let unlisted: Vec<_> = known_hits
        .keys()
        .filter(|k| !env.known.is_known(&env.property, k))
        .collect();
    debug_assert!(unlisted.is_empty());

    if samples.is_empty() {
        samples.push(json!("no non-trivial sample captured"));
    }
    let wall = t0.elapsed().as_secs_f64();
    let evidence = json!({
        "property_id": env.property,
        "tier": env.tier.name(),
        "seed": env.seed,
        "level": prop.level,
        "coverage": {
            "evaluations": evaluations,
            "distinct_nontrivial": nontrivial.len(),
            "rule": prop.rule,
            "samples": samples,
            "exhaustive": false,
            "exhaustive_parts": exhaustive_parts,
            "parts": parts_json,
            "class_counters": counters,
            "excluded_known": known_hits,
            "replays_run": n_replays,
        },
        "assumptions": prop.assumptions,
        "wall_s": wall,
        "violations": violations.len(),
    });
    let evdir = Path::new(VERIF_ROOT).join("evidence");
    let _ = std::fs::create_dir_all(&evdir);
    let _ = std::fs::write(
        evdir.join(format!("{}.json", env.property)),
        serde_json::to_vec_pretty(&evidence).unwrap(),
    );

    disarm_violation_deadline();
    println!(
        "{} {}: {} evaluations, {} distinct non-trivial, {} violations, {:.1}s",
        env.property,
        env.tier.name(),
        evaluations,
        nontrivial.len(),
        violations.len(),
        wall
    );
    if violations.is_empty() {
        RunOutcome { exit: 0 }
    } else {
        for v in violations.iter() {
            println!("  failure [{}]: {}", v.sig, v.msg);
            println!(
                "VIOLATION property={} replay={}",
                env.property,
                v.replay.display()
            );
        }
        RunOutcome { exit: 1 }
    }
}

/// Replays one file: exit 0 = passes (or listed known finding), 1 = violation.
pub fn replay_file(prop: &Property, env: &RunEnv, path: &Path) -> i32 {
    let Some(doc) = read_json(path) else {
        eprintln!("cannot read {}", path.display());
        return 2;
    };
    let part = doc["part"].as_str().unwrap_or("");
    let Some(p) = prop.parts.iter().find(|p| p.name() == part) else {
        eprintln!("unknown part {}", part);
        return 2;
    };
    match p.replay(&doc["case"]) {
        Err(e) => {
            eprintln!("{}", e);
            2
        }
        Ok(None) => {
            println!("replay passes: {}", path.display());
            0
        }
        Ok(Some(f)) => {
            println!("replay fails [{}]: {}", f.sig, f.msg);
            if env.known.is_known(&env.property, &f.sig) {
                let what = env
                    .known
                    .known_for(&env.property)
                    .into_iter()
                    .find(|k| k.signature == f.sig)
                    .map(|k| k.what.clone())
                    .unwrap_or_default();
                println!("KNOWN-FINDING: property={} {}", env.property, what);
                0
            } else {
                println!(
                    "VIOLATION property={} replay={}",
                    env.property,
                    path.display()
                );
                1
            }
        }
    }
}

/// Helper for parts that enumerate a finite space themselves.
pub struct ExhaustivePart<F: Fn(&RunEnv) -> PartReport + Sync + Send> {
    pub name: &'static str,
    pub f: F,
}

impl<F: Fn(&RunEnv) -> PartReport + Sync + Send> DynPart for ExhaustivePart<F> {
    fn name(&self) -> String {
        self.name.to_string()
    }
    fn run(&self, env: &RunEnv) -> PartReport {
        (self.f)(env)
    }
    fn replay(&self, _case: &Value) -> Result<Option<Fail>, String> {
        Err("enumerated part: re-run the tier instead of replaying".into())
    }
}

/// monotone index map recommended for shrinking: i in 0..=65535 → 0..n (n>0)
pub fn pick(i: u16, n: usize) -> usize {
    debug_assert!(n > 0);
    ((i as usize) * n) >> 16
}

/// monotone map of a u16 fraction onto 0..=n
pub fn frac(i: u16, n: usize) -> usize {
    ((i as usize) * (n + 1)) >> 16
}

pub fn boxed<S: Strategy + 'static>(s: S) -> BoxedStrategy<S::Value> {
    s.boxed()
}

/// Turns a libFuzzer input of the generic target (a case as JSON) into an ordinary replay file.
pub fn fuzz_input_to_replay(prop: &Property, part: &str, data: &[u8]) -> Result<std::path::PathBuf, String> {
    prop.parts.iter().find(|p| p.name() == part).ok_or_else(|| format!("unknown part {}", part))?;
    let case: Value = serde_json::from_slice(data).map_err(|e| format!("the input is not a JSON case: {}", e))?;
    let dir = std::path::Path::new(VERIF_ROOT).join("replays").join(prop.id);
    std::fs::create_dir_all(&dir).map_err(|e| e.to_string())?;
    let path = dir.join(format!("fail-fuzz-{}-{:016x}.json", part, hash_json(&case)));
    let doc = json!({"property": prop.id, "part": part, "expect": "pass", "sig": "", "msg": "libFuzzer input of the generic target", "case": case});
    std::fs::write(&path, serde_json::to_vec_pretty(&doc).unwrap_or_default()).map_err(|e| e.to_string())?;
    Ok(path)
}
