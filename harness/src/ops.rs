//! Operation language.  An `Op` names its target and positions by selectors (fractions) that are
//! resolved at execution time against the executing replica's current state, so every generated
//! program is valid by construction and shrinks well.

use crate::val::{any_value, text_string, AnyV};
use proptest::prelude::*;
use serde::{Deserialize, Serialize};

pub const MAP_KEYS: [&str; 4] = ["k0", "k1", "ключ", "k3"];
pub const ATTR_KEYS: [&str; 3] = ["b", "i", "c"];
pub const XML_ATTR_KEYS: [&str; 3] = ["id", "class", "данные"];

#[derive(Clone, Debug, PartialEq, Serialize, Deserialize)]
pub enum StrSpec {
    /// literal text (may repeat characters, combining marks, astral chars)
    Lit(String),
    /// `n` fresh, globally unique characters of a width class (0 ascii, 1 two-byte, 2 three-byte, 3 astral)
    Uniq { n: u8, class: u8 },
}

/// formatting attribute value: None = null (removes the attribute)
#[derive(Clone, Debug, PartialEq, Serialize, Deserialize)]
pub struct AttrSpec(pub Vec<(u8, Option<AnyV>)>);

#[derive(Clone, Debug, PartialEq, Serialize, Deserialize)]
pub enum Nest {
    Text(StrSpec),
    /// array of `n` fresh unique integers
    Array(u8),
    /// map with the given keys set to fresh unique integers
    Map(Vec<u8>),
    XmlElement(u8),
    XmlText(StrSpec),
    XmlFragment,
    Doc(u8),
}

#[derive(Clone, Debug, PartialEq, Serialize, Deserialize)]
pub enum Val {
    Any(AnyV),
    /// a fresh unique integer
    Uniq,
    Nested(Nest),
}

#[derive(Clone, Debug, PartialEq, Serialize, Deserialize)]
pub enum XmlNode {
    /// element with a fresh unique tag name (`class` picks ascii / non-ascii names)
    Elem(u8),
    Text(StrSpec),
    Frag,
}

#[derive(Clone, Debug, PartialEq, Serialize, Deserialize)]
pub enum DeltaOp {
    Retain(u16, Option<AttrSpec>),
    Insert(StrSpec, Option<AttrSpec>),
    Embed(AnyV, Option<AttrSpec>),
    Delete(u16),
}

#[derive(Clone, Debug, PartialEq, Serialize, Deserialize)]
pub enum Op {
    TextInsert { t: u16, pos: u16, s: StrSpec, attrs: Option<AttrSpec> },
    TextPush { t: u16, s: StrSpec },
    TextEmbed { t: u16, pos: u16, v: Val, attrs: Option<AttrSpec> },
    TextFormat { t: u16, pos: u16, len: u16, attrs: AttrSpec },
    TextRemove { t: u16, pos: u16, len: u16 },
    TextDelta { t: u16, delta: Vec<DeltaOp> },
    ArrInsert { a: u16, pos: u16, vals: Vec<Val> },
    ArrPushBack { a: u16, v: Val },
    ArrPushFront { a: u16, v: Val },
    ArrRemove { a: u16, pos: u16, len: u16 },
    MapSet { m: u16, key: u8, v: Val },
    MapTryUpdate { m: u16, key: u8, v: AnyV },
    MapGetOrInit { m: u16, key: u8, kind: u8 },
    MapRemove { m: u16, key: u8 },
    MapClear { m: u16 },
    XmlInsert { x: u16, pos: u16, node: XmlNode },
    XmlRemove { x: u16, pos: u16, len: u16 },
    XmlSetAttr { x: u16, key: u8, v: AnyV },
    XmlRemoveAttr { x: u16, key: u8 },
}

/// Generation profile: which families of operations and how values look.
#[derive(Clone, Debug)]
pub struct Profile {
    pub text: u32,
    pub format: u32,
    pub embed: u32,
    pub delta: u32,
    pub array: u32,
    pub map: u32,
    pub xml: u32,
    pub nested: bool,
    pub subdocs: bool,
    /// only uniquely tagged elements (identity-tracking properties)
    pub unique_only: bool,
    /// extra weight of removals
    pub remove_weight: u32,
    /// max units per inserted string
    pub max_str: usize,
    /// shared types may be embedded into text
    pub embed_nested: bool,
}

impl Profile {
    pub fn all() -> Profile {
        Profile {
            text: 6,
            format: 3,
            embed: 1,
            delta: 1,
            array: 5,
            map: 5,
            xml: 4,
            nested: true,
            subdocs: true,
            unique_only: false,
            remove_weight: 3,
            max_str: 4,
            embed_nested: true,
        }
    }
    pub fn sequences_unique() -> Profile {
        Profile {
            text: 6,
            format: 0,
            embed: 0,
            delta: 0,
            array: 6,
            map: 0,
            xml: 4,
            nested: false,
            subdocs: false,
            unique_only: true,
            remove_weight: 4,
            max_str: 3,
            embed_nested: false,
        }
    }
}

fn sel() -> impl Strategy<Value = u16> {
    // bias towards 0 (root / start), the extremes and the uniform rest
    prop_oneof![
        3 => Just(0u16),
        1 => Just(u16::MAX),
        6 => any::<u16>(),
    ]
}

fn target_sel(nested: bool) -> BoxedStrategy<u16> {
    if nested {
        prop_oneof![3 => Just(0u16), 4 => any::<u16>()].boxed()
    } else {
        Just(0u16).boxed()
    }
}

pub fn str_spec(p: &Profile) -> BoxedStrategy<StrSpec> {
    let max = p.max_str.max(1);
    if p.unique_only {
        (1u8..=(max as u8), 0u8..4).prop_map(|(n, class)| StrSpec::Uniq { n, class }).boxed()
    } else {
        prop_oneof![
            3 => text_string(max).prop_map(StrSpec::Lit),
            2 => (1u8..=(max as u8), 0u8..4).prop_map(|(n, class)| StrSpec::Uniq { n, class }),
        ]
        .boxed()
    }
}

pub fn attr_value() -> impl Strategy<Value = Option<AnyV>> {
    prop_oneof![
        2 => Just(None),
        3 => Just(Some(AnyV::Bool(true))),
        1 => Just(Some(AnyV::Str("red".into()))),
        1 => Just(Some(AnyV::Str("blue".into()))),
        1 => (0i32..3).prop_map(|i| Some(AnyV::num(i as f64))),
    ]
}

pub fn attr_spec(allow_null: bool) -> BoxedStrategy<AttrSpec> {
    let v = if allow_null {
        attr_value().boxed()
    } else {
        attr_value().prop_map(|v| v.or(Some(AnyV::Bool(true)))).boxed()
    };
    prop::collection::btree_map(0u8..3, v, 1..3)
        .prop_map(|m| AttrSpec(m.into_iter().collect()))
        .boxed()
}

fn nest(p: &Profile) -> BoxedStrategy<Nest> {
    let sp = str_spec(p);
    let mut v: Vec<(u32, BoxedStrategy<Nest>)> = vec![
        (3, sp.clone().prop_map(Nest::Text).boxed()),
        (3, (0u8..4).prop_map(Nest::Array).boxed()),
        (3, prop::collection::vec(0u8..4, 0..3).prop_map(Nest::Map).boxed()),
        (1, (0u8..2).prop_map(Nest::XmlElement).boxed()),
        (1, sp.prop_map(Nest::XmlText).boxed()),
        (1, Just(Nest::XmlFragment).boxed()),
    ];
    if p.subdocs {
        v.push((1, (0u8..3).prop_map(Nest::Doc).boxed()));
    }
    proptest::strategy::Union::new_weighted(v).boxed()
}

pub fn val(p: &Profile) -> BoxedStrategy<Val> {
    if p.unique_only {
        return Just(Val::Uniq).boxed();
    }
    let mut v: Vec<(u32, BoxedStrategy<Val>)> = vec![
        (4, Just(Val::Uniq).boxed()),
        (3, any_value(false, 2).prop_map(Val::Any).boxed()),
    ];
    if p.nested {
        v.push((3, nest(p).prop_map(Val::Nested).boxed()));
    }
    proptest::strategy::Union::new_weighted(v).boxed()
}

fn embed_val(p: &Profile) -> BoxedStrategy<Val> {
    // an embedded string would be indistinguishable from text in `diff`, so embeds are non-strings
    // Embed (and Format) content travels as JSON text in lib0 v1, exactly as in Yjs: values that JSON
    // cannot carry (NaN, infinities, undefined, BigInt, buffers) are outside of the domain here.
    let anyv = any_value(true, 1).prop_filter_map("string embed", |a| match a {
        AnyV::Str(_) => Some(AnyV::Map([("s".to_string(), a)].into_iter().collect())),
        other => Some(other),
    });
    let mut v: Vec<(u32, BoxedStrategy<Val>)> = vec![(3, Just(Val::Uniq).boxed()), (2, anyv.prop_map(Val::Any).boxed())];
    if p.nested && p.embed_nested {
        let n = prop_oneof![
            str_spec(p).prop_map(Nest::Text),
            (0u8..3).prop_map(Nest::Array),
            prop::collection::vec(0u8..4, 0..2).prop_map(Nest::Map),
        ];
        v.push((2, n.prop_map(Val::Nested).boxed()));
    }
    proptest::strategy::Union::new_weighted(v).boxed()
}

fn delta_op(p: &Profile) -> BoxedStrategy<DeltaOp> {
    prop_oneof![
        3 => (any::<u16>(), prop::option::of(attr_spec(true))).prop_map(|(n, a)| DeltaOp::Retain(n, a)),
        3 => (str_spec(p), prop::option::of(attr_spec(false))).prop_map(|(s, a)| DeltaOp::Insert(s, a)),
        1 => ((0i32..50).prop_map(|i| AnyV::num(i as f64)), prop::option::of(attr_spec(false))).prop_map(|(v, a)| DeltaOp::Embed(v, a)),
        2 => any::<u16>().prop_map(DeltaOp::Delete),
    ]
    .boxed()
}

pub fn op(p: &Profile) -> BoxedStrategy<Op> {
    let mut v: Vec<(u32, BoxedStrategy<Op>)> = Vec::new();
    let t = target_sel(p.nested);
    if p.text > 0 {
        v.push((
            p.text * 2,
            (t.clone(), sel(), str_spec(p), if p.format > 0 { prop::option::weighted(0.3, attr_spec(false)).boxed() } else { Just(None).boxed() })
                .prop_map(|(t, pos, s, attrs)| Op::TextInsert { t, pos, s, attrs })
                .boxed(),
        ));
        v.push((p.text / 2 + 1, (t.clone(), str_spec(p)).prop_map(|(t, s)| Op::TextPush { t, s }).boxed()));
        v.push((
            p.text * p.remove_weight / 3 + 1,
            (t.clone(), sel(), sel()).prop_map(|(t, pos, len)| Op::TextRemove { t, pos, len }).boxed(),
        ));
    }
    if p.format > 0 {
        v.push((
            p.format * 2,
            (t.clone(), sel(), sel(), attr_spec(true)).prop_map(|(t, pos, len, attrs)| Op::TextFormat { t, pos, len, attrs }).boxed(),
        ));
    }
    if p.embed > 0 {
        v.push((
            p.embed * 2,
            (t.clone(), sel(), embed_val(p), prop::option::weighted(0.3, attr_spec(false)))
                .prop_map(|(t, pos, v, attrs)| Op::TextEmbed { t, pos, v, attrs })
                .boxed(),
        ));
    }
    if p.delta > 0 {
        v.push((
            p.delta * 2,
            (t.clone(), prop::collection::vec(delta_op(p), 1..5)).prop_map(|(t, delta)| Op::TextDelta { t, delta }).boxed(),
        ));
    }
    if p.array > 0 {
        v.push((
            p.array * 2,
            (t.clone(), sel(), prop::collection::vec(val(p), 1..4)).prop_map(|(a, pos, vals)| Op::ArrInsert { a, pos, vals }).boxed(),
        ));
        v.push((p.array / 2 + 1, (t.clone(), val(p)).prop_map(|(a, v)| Op::ArrPushBack { a, v }).boxed()));
        v.push((p.array / 3 + 1, (t.clone(), val(p)).prop_map(|(a, v)| Op::ArrPushFront { a, v }).boxed()));
        v.push((
            p.array * p.remove_weight / 3 + 1,
            (t.clone(), sel(), sel()).prop_map(|(a, pos, len)| Op::ArrRemove { a, pos, len }).boxed(),
        ));
    }
    if p.map > 0 {
        v.push((p.map * 3, (t.clone(), 0u8..4, val(p)).prop_map(|(m, key, v)| Op::MapSet { m, key, v }).boxed()));
        v.push((
            p.map / 2 + 1,
            (t.clone(), 0u8..4, prop_oneof![Just(AnyV::num(1.0)), Just(AnyV::num(2.0)), any_value(true, 1)])
                .prop_map(|(m, key, v)| Op::MapTryUpdate { m, key, v })
                .boxed(),
        ));
        if p.nested {
            v.push((p.map / 2 + 1, (t.clone(), 0u8..4, 0u8..3).prop_map(|(m, key, kind)| Op::MapGetOrInit { m, key, kind }).boxed()));
        }
        v.push((p.map * p.remove_weight / 3 + 1, (t.clone(), 0u8..4).prop_map(|(m, key)| Op::MapRemove { m, key }).boxed()));
        v.push((1, t.clone().prop_map(|m| Op::MapClear { m }).boxed()));
    }
    if p.xml > 0 {
        let node = if p.unique_only {
            (0u8..2).prop_map(XmlNode::Elem).boxed()
        } else {
            prop_oneof![
                4 => (0u8..2).prop_map(XmlNode::Elem),
                3 => str_spec(p).prop_map(XmlNode::Text),
                1 => Just(XmlNode::Frag),
            ]
            .boxed()
        };
        let xt = if p.unique_only { Just(0u16).boxed() } else { prop_oneof![2 => Just(0u16), 3 => any::<u16>()].boxed() };
        v.push((p.xml * 2, (xt.clone(), sel(), node).prop_map(|(x, pos, node)| Op::XmlInsert { x, pos, node }).boxed()));
        v.push((
            p.xml * p.remove_weight / 3 + 1,
            (xt.clone(), sel(), sel()).prop_map(|(x, pos, len)| Op::XmlRemove { x, pos, len }).boxed(),
        ));
        if !p.unique_only {
            v.push((
                p.xml,
                (any::<u16>(), 0u8..3, prop_oneof![3 => "[a-c]{0,3}".prop_map(AnyV::Str), 1 => any_value(true, 1)])
                    .prop_map(|(x, key, v)| Op::XmlSetAttr { x, key, v })
                    .boxed(),
            ));
            v.push((p.xml / 2 + 1, (any::<u16>(), 0u8..3).prop_map(|(x, key)| Op::XmlRemoveAttr { x, key }).boxed()));
        }
    }
    proptest::strategy::Union::new_weighted(v).boxed()
}

/// one transaction = 1..=max ops
pub fn txn_ops(p: &Profile, max: usize) -> BoxedStrategy<Vec<Op>> {
    prop::collection::vec(op(p), 1..=max).boxed()
}

/// Rewrites every `Any` map inside of the op to at most one entry (multi-key maps are written in
/// HashMap iteration order, which defeats byte-level comparisons of encodings).
pub fn single_key_maps(op: &mut Op) {
    fn fix(a: &mut AnyV) {
        match a {
            AnyV::Map(m) => {
                let first = m.iter().next().map(|(k, v)| (k.clone(), v.clone()));
                m.clear();
                if let Some((k, mut v)) = first {
                    fix(&mut v);
                    m.insert(k, v);
                }
            }
            AnyV::Arr(v) => v.iter_mut().for_each(fix),
            _ => {}
        }
    }
    fn fix_val(v: &mut Val) {
        if let Val::Any(a) = v {
            fix(a)
        }
    }
    match op {
        Op::TextEmbed { v, .. } => fix_val(v),
        Op::ArrInsert { vals, .. } => vals.iter_mut().for_each(fix_val),
        Op::ArrPushBack { v, .. } | Op::ArrPushFront { v, .. } | Op::MapSet { v, .. } => fix_val(v),
        Op::MapTryUpdate { v, .. } | Op::XmlSetAttr { v, .. } => fix(v),
        Op::TextDelta { delta, .. } => {
            for d in delta.iter_mut() {
                if let DeltaOp::Embed(a, _) = d {
                    fix(a)
                }
            }
        }
        _ => {}
    }
}
