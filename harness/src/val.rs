//! Serializable mirror of `yrs::Any` with generators and a normal form for comparisons.

use proptest::prelude::*;
use serde::{Deserialize, Serialize};
use std::collections::{BTreeMap, HashMap};
use std::sync::Arc;
use yrs::Any;

/// f64 values are kept as raw bits so that replay files reproduce NaN / -0 / infinities exactly.
#[derive(Clone, Debug, PartialEq, Eq, PartialOrd, Ord, Hash, Serialize, Deserialize)]
pub enum AnyV {
    Null,
    Undef,
    Bool(bool),
    Num(u64),
    Int(i64),
    Str(String),
    Buf(Vec<u8>),
    Arr(Vec<AnyV>),
    Map(BTreeMap<String, AnyV>),
}

impl AnyV {
    pub fn num(f: f64) -> AnyV {
        AnyV::Num(f.to_bits())
    }

    pub fn to_any(&self) -> Any {
        match self {
            AnyV::Null => Any::Null,
            AnyV::Undef => Any::Undefined,
            AnyV::Bool(b) => Any::Bool(*b),
            AnyV::Num(bits) => Any::Number(f64::from_bits(*bits)),
            AnyV::Int(i) => Any::BigInt(*i),
            AnyV::Str(s) => Any::String(Arc::from(s.as_str())),
            AnyV::Buf(b) => Any::Buffer(Arc::from(b.as_slice())),
            AnyV::Arr(a) => Any::Array(a.iter().map(|x| x.to_any()).collect::<Vec<_>>().into()),
            AnyV::Map(m) => {
                let mut h = HashMap::new();
                for (k, v) in m.iter() {
                    h.insert(k.clone(), v.to_any());
                }
                Any::Map(Arc::new(h))
            }
        }
    }

    /// exact structural image (NaN payloads kept, -0 kept)
    pub fn from_any(a: &Any) -> AnyV {
        match a {
            Any::Null => AnyV::Null,
            Any::Undefined => AnyV::Undef,
            Any::Bool(b) => AnyV::Bool(*b),
            Any::Number(f) => AnyV::Num(f.to_bits()),
            Any::BigInt(i) => AnyV::Int(*i),
            Any::String(s) => AnyV::Str(s.to_string()),
            Any::Buffer(b) => AnyV::Buf(b.to_vec()),
            Any::Array(a) => AnyV::Arr(a.iter().map(AnyV::from_any).collect()),
            Any::Map(m) => AnyV::Map(m.iter().map(|(k, v)| (k.clone(), AnyV::from_any(v))).collect()),
        }
    }

    /// normal form used by content comparisons: all NaNs equal, -0 == 0
    pub fn norm(&self) -> AnyV {
        match self {
            AnyV::Num(bits) => {
                let f = f64::from_bits(*bits);
                if f.is_nan() {
                    AnyV::Num(f64::NAN.to_bits())
                } else if f == 0.0 {
                    AnyV::Num(0f64.to_bits())
                } else {
                    AnyV::Num(*bits)
                }
            }
            AnyV::Arr(a) => AnyV::Arr(a.iter().map(|x| x.norm()).collect()),
            AnyV::Map(m) => AnyV::Map(m.iter().map(|(k, v)| (k.clone(), v.norm())).collect()),
            other => other.clone(),
        }
    }

    pub fn norm_any(a: &Any) -> AnyV {
        AnyV::from_any(a).norm()
    }

    /// value after a trip through JSON text, as lib0 v1 does for Embed/Format content:
    /// undefined/NaN/inf -> null, BigInt -> number, buffer -> array of numbers
    pub fn json_image(&self) -> AnyV {
        match self {
            AnyV::Undef => AnyV::Null,
            AnyV::Num(bits) => {
                let f = f64::from_bits(*bits);
                if f.is_finite() {
                    AnyV::num(f)
                } else {
                    AnyV::Null
                }
            }
            AnyV::Int(i) => AnyV::num(*i as f64),
            AnyV::Buf(b) => AnyV::Arr(b.iter().map(|x| AnyV::num(*x as f64)).collect()),
            AnyV::Arr(a) => AnyV::Arr(a.iter().map(|x| x.json_image()).collect()),
            AnyV::Map(m) => AnyV::Map(m.iter().map(|(k, v)| (k.clone(), v.json_image())).collect()),
            other => other.clone(),
        }
    }
}

pub fn small_string() -> impl Strategy<Value = String> {
    prop_oneof![
        4 => "[a-z]{0,4}",
        2 => prop::collection::vec(unit_char(), 0..4).prop_map(|v| v.into_iter().collect::<String>()),
    ]
}

/// characters of every UTF-8 / UTF-16 width, including combining marks
pub fn unit_char() -> impl Strategy<Value = char> {
    prop_oneof![
        6 => prop::char::range('a', 'z'),
        1 => Just(' '),
        2 => prop::char::range('\u{e0}', '\u{ff}'),
        2 => prop::char::range('\u{4e00}', '\u{4e20}'),
        2 => prop::char::range('\u{1F600}', '\u{1F610}'),
        1 => Just('\u{0301}'),
        1 => Just('\u{200d}'),
        1 => Just('\u{ffff}'),
        1 => Just('\u{10000}'),
    ]
}

pub fn text_string(max: usize) -> impl Strategy<Value = String> {
    prop::collection::vec(unit_char(), 1..=max).prop_map(|v| v.into_iter().collect::<String>())
}

fn leaf_any(json_safe: bool) -> BoxedStrategy<AnyV> {
    if json_safe {
        prop_oneof![
            1 => Just(AnyV::Null),
            2 => any::<bool>().prop_map(AnyV::Bool),
            3 => (-1000i32..1000).prop_map(|i| AnyV::num(i as f64)),
            1 => (-1000i32..1000).prop_map(|i| AnyV::num(i as f64 / 8.0)),
            3 => small_string().prop_map(AnyV::Str),
        ]
        .boxed()
    } else {
        prop_oneof![
            1 => Just(AnyV::Null),
            1 => Just(AnyV::Undef),
            2 => any::<bool>().prop_map(AnyV::Bool),
            3 => (-1000i32..1000).prop_map(|i| AnyV::num(i as f64)),
            1 => prop_oneof![
                Just(f64::NAN), Just(f64::INFINITY), Just(f64::NEG_INFINITY), Just(-0.0f64),
                Just(9007199254740993.0f64), Just(f64::MIN_POSITIVE), Just(f64::MAX), Just(0.1f64),
                Just(1.0e-7f64), Just(16777217.0f64), Just(-2147483649.0f64), Just(4294967296.0f64)
            ].prop_map(AnyV::num),
            1 => any::<f64>().prop_map(AnyV::num),
            2 => prop_oneof![
                Just(0i64), Just(-1), Just(i64::MAX), Just(i64::MIN), Just((1i64 << 53) + 1), Just(-(1i64 << 53) - 1),
                Just(1i64<<31), Just(-(1i64<<31)-1), any::<i64>()
            ].prop_map(AnyV::Int),
            3 => small_string().prop_map(AnyV::Str),
            1 => prop::collection::vec(any::<u8>(), 0..6).prop_map(AnyV::Buf),
        ]
        .boxed()
    }
}

/// arbitrary Any (all tags, nested); `json_safe` restricts to values that survive JSON text
pub fn any_value(json_safe: bool, depth: u32) -> BoxedStrategy<AnyV> {
    leaf_any(json_safe)
        .prop_recursive(depth, 24, 4, move |inner| {
            prop_oneof![
                prop::collection::vec(inner.clone(), 0..4).prop_map(AnyV::Arr),
                prop::collection::btree_map("[a-c]{1,2}", inner, 0..4).prop_map(AnyV::Map),
            ]
        })
        .boxed()
}

pub fn attrs_to_sorted(attrs: &HashMap<Arc<str>, Any>) -> BTreeMap<String, AnyV> {
    attrs.iter().map(|(k, v)| (k.to_string(), AnyV::norm_any(v))).collect()
}

impl AnyV {
    /// equality up to a few units in the last place on numbers (serde_json's default float parser is
    /// documented to be off by one ULP in rare cases; enabling its `float_roundtrip` feature is a
    /// dependency decision, not a wire-format property)
    pub fn approx_eq(&self, other: &AnyV) -> bool {
        match (self, other) {
            (AnyV::Num(a), AnyV::Num(b)) => {
                let (x, y) = (f64::from_bits(*a), f64::from_bits(*b));
                if x.is_nan() || y.is_nan() {
                    return x.is_nan() && y.is_nan();
                }
                x == y || (a.max(b) - a.min(b)) <= 8
            }
            (AnyV::Arr(a), AnyV::Arr(b)) => a.len() == b.len() && a.iter().zip(b.iter()).all(|(x, y)| x.approx_eq(y)),
            (AnyV::Map(a), AnyV::Map(b)) => a.len() == b.len() && a.iter().zip(b.iter()).all(|((k1, x), (k2, y))| k1 == k2 && x.approx_eq(y)),
            (a, b) => a == b,
        }
    }
}
