//! ad-hoc debugging helper (not part of any check)
use vh::world::*;
use yrs::updates::decoder::Decode;
use yrs::{ReadTxn, Transact, Update};

fn show(w: &World) {
    for (k, rep) in w.reps.iter().enumerate() {
        let txn = rep.doc.transact();
        println!("   rep {} sv {:?} missing {} received {:?}", k, sv_to_vec(&txn.state_vector()), txn.has_missing_updates(), rep.received);
        println!("        blocks {:?} skips {:?}", blocks(rep), yrs::verif_hooks::store_skips(txn.store()));
    }
}

fn blocks(rep: &Replica) -> Vec<String> {
    let txn = rep.doc.transact();
    yrs::verif_hooks::store_blocks(txn.store())
        .iter()
        .map(|b| {
            format!(
                "{}#{}+{}{}",
                b.client,
                b.clock,
                b.len,
                match b.kind {
                    yrs::verif_hooks::BlockKind::Item =>
                        if b.deleted {
                            "d"
                        } else {
                            ""
                        },
                    yrs::verif_hooks::BlockKind::GC => "gc",
                    _ => "skip",
                }
            )
        })
        .collect()
}

fn main() {
    let path = std::env::args().nth(1).expect("replay file");
    let doc: serde_json::Value = serde_json::from_slice(&std::fs::read(path).unwrap()).unwrap();
    let history: History = serde_json::from_value(doc["case"]["history"].clone()).unwrap();
    let mut w = World::new(&history.cfgs);
    for (i, s) in history.steps.iter().enumerate() {
        let r = w.step(s);
        println!("step {} {:?} -> {:?}", i, s, r);
        show(&w);
    }
    for (i, u) in w.updates.iter().enumerate() {
        println!("update {} by {} deps {:?}: {:?}", i, u.author, u.deps, Update::decode_v1(&u.v1).unwrap());
    }
    if doc["property"] == "C02" {
        let case: vh::props::c02::Case = serde_json::from_value(doc["case"].clone()).unwrap();
        let all: Vec<usize> = (0..w.updates.len()).collect();
        let p = vh::props::c01::plan(&case.sched, &all);
        let obs = Replica::new(case.observer.clone());
        for d in p.iter() {
            let r = vh::props::c01::exec_delivery(&w, &obs, d);
            let txn = obs.doc.transact();
            println!("deliver {:?} -> {:?}: sv {:?} missing {} blocks {:?}", d, r.is_ok(), sv_to_vec(&txn.state_vector()), txn.has_missing_updates(), blocks(&obs));
            println!("    pending {:?}", txn.store().pending_update().map(|p| format!("{:?} missing {:?}", p.update, p.missing)));
            println!("    pending_ds {:?}", txn.store().pending_ds());
        }
    }
}
