//! ad-hoc debugging helper (not part of any check)
use vh::props::c01::Case;
use vh::world::*;
use yrs::updates::decoder::Decode;
use yrs::{ReadTxn, Transact, Update};

fn main() {
    let path = std::env::args().nth(1).expect("replay file");
    let doc: serde_json::Value = serde_json::from_slice(&std::fs::read(path).unwrap()).unwrap();
    let case: Case = serde_json::from_value(doc["case"].clone()).unwrap();
    let mut w = World::new(&case.history.cfgs);
    for (i, s) in case.history.steps.iter().enumerate() {
        if let Step::Sync { from, to, .. } = s {
            let sv = w.reps[*to as usize].sv();
            let txn = w.reps[*from as usize].doc.transact();
            let b = txn.encode_state_as_update_v1(&sv);
            println!("SYNC bytes {:?}\n   decoded {:?}", b, Update::decode_v1(&b));
            let mut enc = yrs::updates::encoder::EncoderV1::new();
            txn.encode_state_as_update(&sv, &mut enc);
            use yrs::updates::encoder::Encoder;
            let raw = enc.to_vec();
            println!("   without pending: {:?} decoded {:?}", raw, Update::decode_v1(&raw));
            println!("   pending: {:?}", txn.store().pending_update().map(|p| format!("{:?} missing {:?}", p.update, p.missing)));
        }
        let r = w.step(s);
        println!("step {} {:?} -> {:?}", i, s, r);
        for (k, rep) in w.reps.iter().enumerate() {
            let txn = rep.doc.transact();
            println!("   rep {} sv {:?} missing {} received {:?}", k, sv_to_vec(&txn.state_vector()), txn.has_missing_updates(), rep.received);
            println!("        blocks {:?} skips {:?}", yrs::verif_hooks::store_blocks(txn.store()).iter().map(|b| format!("{}#{}+{}{}", b.client, b.clock, b.len, match b.kind { yrs::verif_hooks::BlockKind::Item => if b.deleted {"d"} else {""}, yrs::verif_hooks::BlockKind::GC => "gc", _ => "skip" })).collect::<Vec<_>>(), yrs::verif_hooks::store_skips(txn.store()));
        }
    }
    for (i, u) in w.updates.iter().enumerate() {
        println!("update {} by {} deps {:?}: {:?}", i, u.author, u.deps, Update::decode_v1(&u.v1).unwrap());
    }
    let reference = Replica::new(Cfg { client: 9999, utf16: false, skip_gc: false, cleanup: false });
    for (i, u) in w.updates.iter().enumerate() {
        reference.apply_v1(&u.v1).unwrap();
        let txn = reference.doc.transact();
        println!("ref after {}: sv {:?} missing {} pending {:?} pending_ds {:?}", i, sv_to_vec(&txn.state_vector()), txn.has_missing_updates(), txn.store().pending_update().map(|p| format!("{:?}", p.update)), txn.store().pending_ds());
    }
}
