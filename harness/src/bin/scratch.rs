//! ad-hoc debugging helper (not part of any check)
use vh::world::*;
use yrs::updates::decoder::Decode;
use yrs::{ReadTxn, Transact, Update};

fn show(w: &World) {
    for (k, rep) in w.reps.iter().enumerate() {
        let txn = rep.doc.transact();
        println!("   rep {} sv {:?} missing {} received {:?}", k, sv_to_vec(&txn.state_vector()), txn.has_missing_updates(), rep.received);
        println!("        blocks {:?} skips {:?}", blocks(rep), yrs::verif_hooks::store_skips(txn.store()));
    }
}

fn blocks(rep: &Replica) -> Vec<String> {
    let txn = rep.doc.transact();
    yrs::verif_hooks::store_blocks(txn.store())
        .iter()
        .map(|b| {
            format!(
                "{}#{}+{}{}",
                b.client,
                b.clock,
                b.len,
                match b.kind {
                    yrs::verif_hooks::BlockKind::Item =>
                        if b.deleted {
                            "d"
                        } else {
                            ""
                        },
                    yrs::verif_hooks::BlockKind::GC => "gc",
                    _ => "skip",
                }
            )
        })
        .collect()
}

fn main() {
    let path = std::env::args().nth(1).expect("replay file");
    if path == "c20dbg" {
        c20dbg();
        return;
    }
    if path == "c12dbg" {
        c12dbg();
        return;
    }
    if path == "c12dbg5" {
        c12dbg5();
        return;
    }
    if path == "c12dbg4" {
        c12dbg4();
        return;
    }
    if path == "c12dbg3" {
        c12dbg3();
        return;
    }
    if path == "c12dbg2" {
        for i in 0..300 {
            if c12dbg2(i) {
                break;
            }
        }
        return;
    }
    let doc: serde_json::Value = serde_json::from_slice(&std::fs::read(&path).unwrap()).unwrap();
    if doc["property"] == "C07" {
        c07_debug(&path);
        return;
    }
    let history: History = serde_json::from_value(doc["case"]["history"].clone()).unwrap();
    let mut w = World::new(&history.cfgs);
    for (i, s) in history.steps.iter().enumerate() {
        let r = w.step(s);
        println!("step {} {:?} -> {:?}", i, s, r);
        show(&w);
    }
    for (i, u) in w.updates.iter().enumerate() {
        println!("update {} by {} deps {:?}: {:?}", i, u.author, u.deps, Update::decode_v1(&u.v1).unwrap());
    }
    if doc["property"] == "C06" {
        let n = w.reps.len();
        let a = doc["case"]["a"].as_u64().unwrap() as usize % n;
        let mut b = doc["case"]["b"].as_u64().unwrap() as usize % n;
        if a == b {
            b = (a + 1) % n;
        }
        println!("A = rep {}, B = rep {}", a, b);
        for round in 0..3 {
            for (from, to) in [(a, b), (b, a)] {
                let sv = w.reps[to].sv();
                let bytes = w.reps[from].doc.transact().encode_state_as_update_v1(&sv);
                println!("round {} {} -> {} (sv {:?}): {:?}", round, from, to, sv_to_vec(&sv), Update::decode_v1(&bytes).unwrap());
                let r = w.reps[to].apply(&bytes, false);
                let txn = w.reps[to].doc.transact();
                println!("   -> {:?} sv {:?} blocks {:?}", r.is_ok(), sv_to_vec(&txn.state_vector()), blocks(&w.reps[to]));
                println!("      pending {:?}", txn.store().pending_update().map(|p| format!("{:?} missing {:?}", p.update, p.missing)));
                println!("      pending_ds {:?}", txn.store().pending_ds());
            }
        }
    }
    if doc["property"] == "C02" {
        let case: vh::props::c02::Case = serde_json::from_value(doc["case"].clone()).unwrap();
        let all: Vec<usize> = (0..w.updates.len()).collect();
        let p = vh::props::c01::plan(&case.sched, &all);
        let obs = Replica::new(case.observer.clone());
        for d in p.iter() {
            let r = vh::props::c01::exec_delivery(&w, &obs, d);
            let txn = obs.doc.transact();
            println!("deliver {:?} -> {:?}: sv {:?} missing {} blocks {:?}", d, r.is_ok(), sv_to_vec(&txn.state_vector()), txn.has_missing_updates(), blocks(&obs));
            println!("    pending {:?}", txn.store().pending_update().map(|p| format!("{:?} missing {:?}", p.update, p.missing)));
            println!("    pending_ds {:?}", txn.store().pending_ds());
        }
    }
}

#[allow(dead_code)]
pub fn c07_debug(path: &str) {
    use std::sync::atomic::{AtomicU64, Ordering};
    use std::sync::Arc;
    use vh::interp::run_ops;
    use vh::props::c07::*;
    use yrs::undo::Options as UndoOptions;
    use yrs::UndoManager;
    let doc: serde_json::Value = serde_json::from_slice(&std::fs::read(path).unwrap()).unwrap();
    let case: Case = serde_json::from_value(doc["case"].clone()).unwrap();
    let mut w = World::new(&case.cfgs);
    let clock = Arc::new(AtomicU64::new(1_000));
    let c2 = clock.clone();
    let mut mgr: UndoManager = UndoManager::with_options(UndoOptions { capture_timeout_millis: 500, timestamp: Arc::new(move || c2.load(Ordering::SeqCst)), ..Default::default() });
    mgr.include_origin("tracked");
    mgr.expand_scope(&w.reps[0].doc, &w.reps[0].roots.map);
    let f = Replica::new(Cfg { client: 7001, utf16: false, skip_gc: true, cleanup: false });
    for step in case.steps.iter() {
        match step {
            EStep::Local { ops, origin } => {
                let e = &w.reps[0];
                let mut txn = match origin % 3 {
                    0 => e.doc.transact_mut(),
                    1 => e.doc.transact_mut_with("tracked"),
                    _ => e.doc.transact_mut_with("other"),
                };
                run_ops(&mut txn, &e.roots, ops, &mut w.alloc, e.cfg.kind());
            }
            EStep::Undo => {
                println!("undo -> {}", mgr.undo_blocking());
            }
            _ => {}
        }
        let ev = w.reps[0].drain();
        for u in ev.v1.iter() {
            println!("EVENT {:?}", Update::decode_v1(u).unwrap());
            f.apply_v1(u).unwrap();
        }
        println!("emitter blocks {:?}", blocks(&w.reps[0]));
        println!("emitter dump {}", w.reps[0].dump().short());
        println!("follower dump {}", f.dump().short());
    }
}

fn c20dbg() {
    use yrs::{Doc, Options, OffsetKind, Text, Map, GetString, Quotable, Transact, Out, WeakRef, TextRef};
    use yrs::branch::BranchPtr;
    use std::ops::Bound;
    for kind in [OffsetKind::Bytes, OffsetKind::Utf16] {
        let doc = Doc::with_options(Options { client_id: yrs::block::ClientID::new(2), offset_kind: kind, ..Default::default() });
        let text = doc.get_or_insert_text("text");
        let map = doc.get_or_insert_map("map");
        text.insert(&mut doc.transact_mut(), 0, "\u{1F302}\u{1F303}\u{1F304}");
        {
            let mut txn = doc.transact_mut();
            let q = if kind == OffsetKind::Bytes { text.quote(&txn, (Bound::Excluded(0u32), Bound::Included(4u32))).unwrap() } else { text.quote(&txn, (Bound::Excluded(1u32), Bound::Included(3u32))).unwrap() };
            map.insert(&mut txn, "q", q);
        }
        println!("text {:?}", text.get_string(&doc.transact()));
        for it in yrs::verif_hooks::branch_items(&BranchPtr::from(AsRef::<yrs::branch::Branch>::as_ref(&text))) {
            println!("   {:?} len {} linked {} {:?}", it.id, it.len, it.linked, it.text);
        }
        let txn = doc.transact();
        if let Some(Out::YWeakLink(w)) = map.get(&txn, "q") {
            let t: WeakRef<TextRef> = WeakRef::from(w);
            println!("quoted {:?}", t.get_string(&txn));
        }
    }
}

fn c12dbg() {
    use yrs::undo::Options as UOpts;
    use yrs::{Doc, GetString, Options, Text, Transact, XmlFragment, XmlTextPrelim};
    let mut o = Options::with_client_id(yrs::block::ClientID::new(1));
    o.skip_gc = false;
    let doc = Doc::with_options(o);
    let xml = doc.get_or_insert_xml_fragment("xml");
    let mut uo = UOpts::<()>::default();
    uo.capture_timeout_millis = 0;
    let mut mgr = yrs::undo::UndoManager::with_options(uo);
    mgr.expand_scope(&doc, &xml);
    let show = |what: &str| {
        let txn = doc.transact();
        let blocks: Vec<String> = yrs::verif_hooks::store_blocks(txn.store()).iter().map(|b| format!("{}#{}+{}{:?}{}", b.client.get(), b.clock, b.len, b.kind, if b.deleted { "d" } else { "" })).collect();
        println!("{}: {:?} blocks {:?}", what, xml.get_string(&txn), blocks);
    };
    let t = {
        let mut txn = doc.transact_mut();
        let t = xml.insert(&mut txn, 0, XmlTextPrelim::new("a"));
        t.insert(&mut txn, 0, "b");
        t
    };
    show("created ba");
    mgr.reset();
    t.remove_range(&mut doc.transact_mut(), 1, 1);
    show("removed a");
    mgr.reset();
    println!("undo -> {}", mgr.undo_blocking());
    show("after undo 1");
    xml.remove_range(&mut doc.transact_mut(), 0, 1);
    show("removed T");
    println!("undo -> {}", mgr.undo_blocking());
    show("after undo 2");
}


fn c12dbg2(round: u32) -> bool {
    use yrs::undo::Options as UOpts;
    use yrs::{Array, Doc, GetString, Options, Text, TextPrelim, Transact, ReadTxn, StateVector};
    let mut o = Options::with_client_id(yrs::block::ClientID::new(1));
    o.skip_gc = true;
    let doc = Doc::with_options(o);
    let arr = doc.get_or_insert_array("arr");
    let mut uo = UOpts::<()>::default();
    uo.capture_timeout_millis = 0;
    let mut mgr = yrs::undo::UndoManager::with_options(uo);
    mgr.expand_scope(&doc, &arr);
    let blocks = |d: &Doc| -> Vec<String> {
        let txn = d.transact();
        yrs::verif_hooks::store_blocks(txn.store()).iter().map(|b| format!("{}#{}+{}{}", b.client.get(), b.clock, b.len, if b.deleted { "d" } else { "" })).collect()
    };
    let t = arr.insert(&mut doc.transact_mut(), 0, TextPrelim::new("Xwy"));
    mgr.reset();
    {
        let mut txn = doc.transact_mut();
        t.insert(&mut txn, 0, "abcd");
        t.remove_range(&mut txn, 5, 2);
    }
    mgr.reset();
    assert!(mgr.undo_blocking());
    {
        let mut txn = doc.transact_mut();
        t.remove_range(&mut txn, 1, 1);
        let l = t.len(&txn);
        t.insert(&mut txn, l, "PQ");
    }
    mgr.reset();
    assert!(mgr.undo_blocking());
    assert!(mgr.undo_blocking());
    let before = blocks(&doc);
    let sv = doc.transact().state_vector();
    assert!(mgr.redo_blocking());
    let local = {
        let txn = doc.transact();
        match arr.get(&txn, 0) {
            Some(yrs::Out::YText(t)) => t.get_string(&txn),
            other => format!("{:?}", other.is_some()),
        }
    };
    let fol = Doc::with_client_id(2);
    let farr = fol.get_or_insert_array("arr");
    let full = doc.transact().encode_state_as_update_v1(&StateVector::default());
    fol.transact_mut().apply_update(Update::decode_v1(&full).unwrap()).unwrap();
    let remote = {
        let txn = fol.transact();
        match farr.get(&txn, 0) {
            Some(yrs::Out::YText(t)) => t.get_string(&txn),
            other => format!("{:?}", other.is_some()),
        }
    };
    if local != remote {
        println!("round {}: local {:?} remote {:?}", round, local, remote);
        println!("blocks before redo {:?}", before);
        println!("blocks after redo  {:?}", blocks(&doc));
        let diff = doc.transact().encode_state_as_update_v1(&sv);
        println!("redo update: {:?}", Update::decode_v1(&diff).unwrap());
        return true;
    }
    false
}


fn c12dbg3() {
    use yrs::undo::Options as UOpts;
    use yrs::{Doc, Map, Options, Transact, ReadTxn};
    let mut o = Options::with_client_id(yrs::block::ClientID::new(1));
    o.skip_gc = false;
    let doc = Doc::with_options(o);
    let map = doc.get_or_insert_map("map");
    let mut uo = UOpts::<()>::default();
    uo.capture_timeout_millis = 0;
    let mut mgr = yrs::undo::UndoManager::with_options(uo);
    mgr.expand_scope(&doc, &map);
    let blocks = |what: &str| {
        let txn = doc.transact();
        let b: Vec<String> = yrs::verif_hooks::store_blocks(txn.store()).iter().map(|b| format!("{}#{}+{}{:?}{}", b.client.get(), b.clock, b.len, b.kind, if b.deleted { "d" } else { "" })).collect();
        println!("{}: {:?}", what, b);
    };
    map.insert(&mut doc.transact_mut(), "k1", 1.0);
    blocks("set");
    mgr.reset();
    println!("undo {}", mgr.undo_blocking());
    blocks("after undo 1");
    {
        let mut txn = doc.transact_mut();
        map.insert(&mut txn, "k1", 2.0);
        map.clear(&mut txn);
    }
    blocks("set+clear");
    mgr.reset();
    println!("undo {}", mgr.undo_blocking());
    blocks("after undo 2");
    doc.transact_mut().gc(None);
    blocks("after gc");
    let txn = doc.transact();
    println!("len {}", map.len(&txn));
    for (k, v) in map.iter(&txn) {
        println!("{} = {}", k, v);
    }
}


fn c12dbg4() {
    use yrs::undo::Options as UOpts;
    use yrs::{Array, Doc, Map, Options, Transact, ReadTxn};
    let mut o = Options::with_client_id(yrs::block::ClientID::new(1));
    o.skip_gc = false;
    let doc = Doc::with_options(o);
    let map = doc.get_or_insert_map("map");
    let arr = doc.get_or_insert_array("arr");
    let mut uo = UOpts::<()>::default();
    uo.capture_timeout_millis = 0;
    let mut mgr = yrs::undo::UndoManager::with_options(uo);
    mgr.expand_scope(&doc, &map);
    mgr.expand_scope(&doc, &arr);
    let show = |what: &str| {
        let txn = doc.transact();
        let b: Vec<String> = yrs::verif_hooks::store_blocks(txn.store()).iter().map(|b| format!("{}#{}+{}{:?}{}", b.client.get(), b.clock, b.len, b.kind, if b.deleted { "d" } else { "" })).collect();
        println!("{}: arr len {} blocks {:?}", what, arr.len(&txn), b);
    };
    {
        let mut txn = doc.transact_mut();
        map.insert(&mut txn, "k0", 1.0);
        arr.push_back(&mut txn, 2.0);
    }
    mgr.reset();
    arr.remove(&mut doc.transact_mut(), 0);
    mgr.reset();
    arr.insert(&mut doc.transact_mut(), 0, 3.0);
    mgr.reset();
    show("before undo 1");
    println!("undo {}", mgr.undo_blocking());
    show("after undo 1");
    mgr.clear_redo();
    show("after clear_redo");
    doc.transact_mut().gc(None);
    show("after gc");
    println!("undo {}", mgr.undo_blocking());
    show("after undo 2");
    println!("undo {}", mgr.undo_blocking());
    show("after undo 3");
}


fn c12dbg5() {
    use yrs::types::ToJson;
    use yrs::undo::Options as UOpts;
    use yrs::{Array, Doc, Map, MapPrelim, MapRef, Options, Transact};
    let mut o = Options::with_client_id(yrs::block::ClientID::new(1));
    o.skip_gc = false;
    let doc = Doc::with_options(o);
    let arr = doc.get_or_insert_array("arr");
    let mut uo = UOpts::<()>::default();
    uo.capture_timeout_millis = 0;
    let mut mgr = yrs::undo::UndoManager::with_options(uo);
    mgr.expand_scope(&doc, &arr);
    let show = |what: &str| {
        let txn = doc.transact();
        let b: Vec<String> = yrs::verif_hooks::store_blocks(txn.store()).iter().map(|b| format!("{}#{}+{}{}", b.client.get(), b.clock, b.len, if b.deleted { "d" } else { "" })).collect();
        println!("{}: {} blocks {:?}", what, arr.to_json(&txn), b);
    };
    let m: MapRef = arr.insert(&mut doc.transact_mut(), 0, MapPrelim::from([("k".to_string(), yrs::Any::from(3.0))]));
    mgr.reset();
    show("created");
    m.insert(&mut doc.transact_mut(), "k", 7.0);
    mgr.reset();
    show("overwritten");
    println!("undo {}", mgr.undo_blocking());
    show("after undo of the overwrite");
    arr.remove(&mut doc.transact_mut(), 0);
    mgr.reset();
    show("map removed");
    println!("undo {}", mgr.undo_blocking());
    show("after undo of the removal");
}
