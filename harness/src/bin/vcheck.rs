//! vcheck <ID> --tier quick|thorough [--seed N] [--replay FILE]
//!
//! exit 0 = property held on everything explored, 1 = violation (VIOLATION line printed),
//! 2 = inconclusive (build/usage problem, watchdog, crash that could not be reproduced).

use std::os::unix::process::ExitStatusExt;
use std::path::{Path, PathBuf};
use std::process::{Command, Stdio};
use std::sync::atomic::AtomicBool;
use std::time::{Duration, Instant};
use vh::engine::{self, RunEnv, Tier};

struct Args {
    id: String,
    tier: Tier,
    seed: u64,
    replay: Option<PathBuf>,
    child: bool,
    trace: bool,
}

fn parse_args() -> Result<Args, String> {
    let mut it = std::env::args().skip(1);
    let id = it.next().ok_or("usage: vcheck <ID> --tier quick|thorough")?;
    let mut tier = match std::env::var("VERIF_TIER").ok().as_deref() {
        Some("thorough") => Tier::Thorough,
        _ => Tier::Quick,
    };
    let mut tier_explicit = false;
    let mut seed = std::env::var("VERIF_SEED")
        .ok()
        .and_then(|s| s.trim().parse::<i64>().ok())
        .map(|v| v as u64)
        .unwrap_or(0);
    let mut replay = None;
    let mut child = false;
    let mut trace = false;
    while let Some(a) = it.next() {
        match a.as_str() {
            "--tier" => {
                let t = it.next().ok_or("--tier needs a value")?;
                tier = match t.as_str() {
                    "quick" => Tier::Quick,
                    "thorough" => Tier::Thorough,
                    _ => return Err(format!("unknown tier {}", t)),
                };
                tier_explicit = true;
            }
            "--seed" => {
                seed = it
                    .next()
                    .ok_or("--seed needs a value")?
                    .parse::<i64>()
                    .map_err(|e| e.to_string())? as u64
            }
            "--replay" => replay = Some(PathBuf::from(it.next().ok_or("--replay needs a file")?)),
            "--child" => child = true,
            "--trace" => trace = true,
            other => return Err(format!("unknown argument {}", other)),
        }
    }
    let _ = tier_explicit;
    Ok(Args {
        id,
        tier,
        seed,
        replay,
        child,
        trace,
    })
}

fn child_main(args: &Args) -> i32 {
    engine::install_panic_hook();
    let Some(prop) = vh::props::build(&args.id) else {
        eprintln!("unknown property {}", args.id);
        return 2;
    };
    let jobs = std::env::var("VERIF_JOBS")
        .ok()
        .and_then(|s| s.parse().ok())
        .unwrap_or_else(|| {
            std::thread::available_parallelism()
                .map(|n| n.get())
                .unwrap_or(8)
                .min(16)
        });
    let scale = std::env::var("VERIF_SCALE")
        .ok()
        .and_then(|s| s.parse().ok())
        .unwrap_or(1.0);
    let env = RunEnv {
        property: args.id.clone(),
        tier: args.tier,
        seed: args.seed,
        jobs,
        known: vh::known::global().clone(),
        trace: args.trace,
        stop: AtomicBool::new(false),
        scale,
    };
    if let Some(path) = &args.replay {
        return engine::replay_file(&prop, &env, path);
    }
    engine::run_property(&prop, &env).exit
}

enum ChildEnd {
    Exit(i32),
    Signal(i32),
    Timeout,
}

fn run_child(extra: &[&str], timeout: Duration, quiet: bool) -> ChildEnd {
    let exe = std::env::current_exe().expect("current_exe");
    let mut cmd = Command::new(exe);
    for a in std::env::args().skip(1) {
        cmd.arg(a);
    }
    for a in extra {
        cmd.arg(a);
    }
    if quiet {
        cmd.stdout(Stdio::null());
        cmd.stderr(Stdio::null());
    }
    let mut child = cmd.spawn().expect("spawn child");
    let t0 = Instant::now();
    loop {
        match child.try_wait() {
            Ok(Some(st)) => {
                if let Some(c) = st.code() {
                    return ChildEnd::Exit(c);
                }
                return ChildEnd::Signal(st.signal().unwrap_or(0));
            }
            Ok(None) => {
                if t0.elapsed() > timeout {
                    let _ = child.kill();
                    let _ = child.wait();
                    return ChildEnd::Timeout;
                }
                std::thread::sleep(Duration::from_millis(50));
            }
            Err(_) => return ChildEnd::Exit(2),
        }
    }
}

fn replay_in_child(id: &str, file: &Path, timeout: Duration) -> ChildEnd {
    let exe = std::env::current_exe().expect("current_exe");
    let mut cmd = Command::new(exe);
    cmd.arg(id)
        .arg("--replay")
        .arg(file)
        .arg("--child")
        .stdout(Stdio::null())
        .stderr(Stdio::null());
    let mut child = cmd.spawn().expect("spawn child");
    let t0 = Instant::now();
    loop {
        match child.try_wait() {
            Ok(Some(st)) => {
                if let Some(c) = st.code() {
                    return ChildEnd::Exit(c);
                }
                return ChildEnd::Signal(st.signal().unwrap_or(0));
            }
            Ok(None) => {
                if t0.elapsed() > timeout {
                    let _ = child.kill();
                    let _ = child.wait();
                    return ChildEnd::Timeout;
                }
                std::thread::sleep(Duration::from_millis(20));
            }
            Err(_) => return ChildEnd::Exit(2),
        }
    }
}

fn main() {
    let args = match parse_args() {
        Ok(a) => a,
        Err(e) => {
            eprintln!("{}", e);
            std::process::exit(2);
        }
    };
    if args.child {
        std::process::exit(child_main(&args));
    }
    let default_timeout = match args.tier {
        Tier::Quick => 2400,
        Tier::Thorough => 8 * 3600,
    };
    let timeout = Duration::from_secs(
        std::env::var("VERIF_TIMEOUT_S")
            .ok()
            .and_then(|s| s.parse().ok())
            .unwrap_or(default_timeout),
    );
    match run_child(&["--child"], timeout, false) {
        ChildEnd::Exit(c) => std::process::exit(c),
        ChildEnd::Timeout => {
            println!(
                "INCONCLUSIVE property={} watchdog after {}s (not a violation)",
                args.id,
                timeout.as_secs()
            );
            std::process::exit(2);
        }
        ChildEnd::Signal(sig) => {
            println!(
                "{}: checker process died with signal {}; re-running in trace mode to recover the case",
                args.id, sig
            );
            if args.replay.is_some() {
                println!(
                    "VIOLATION property={} replay={}",
                    args.id,
                    args.replay.as_ref().unwrap().display()
                );
                std::process::exit(1);
            }
            let trace_dir = Path::new(engine::VERIF_ROOT)
                .join("target")
                .join("trace")
                .join(&args.id);
            let _ = std::fs::remove_dir_all(&trace_dir);
            let _ = run_child(&["--child", "--trace"], timeout, true);
            let mut files: Vec<PathBuf> = std::fs::read_dir(&trace_dir)
                .map(|rd| rd.filter_map(|e| e.ok().map(|e| e.path())).collect())
                .unwrap_or_default();
            files.sort();
            for f in files {
                match replay_in_child(&args.id, &f, Duration::from_secs(300)) {
                    ChildEnd::Signal(s2) => {
                        let dir = Path::new(engine::VERIF_ROOT).join("replays").join(&args.id);
                        let _ = std::fs::create_dir_all(&dir);
                        let dst = dir.join(format!(
                            "fail-crash-sig{}-s{}-{}",
                            s2,
                            args.seed,
                            f.file_name().unwrap().to_string_lossy()
                        ));
                        let _ = std::fs::copy(&f, &dst);
                        println!(
                            "  failure [crash/signal-{}]: the stored case kills the process",
                            s2
                        );
                        println!("VIOLATION property={} replay={}", args.id, dst.display());
                        std::process::exit(1);
                    }
                    _ => {}
                }
            }
            println!(
                "INCONCLUSIVE property={} crash with signal {} could not be reproduced from traced cases",
                args.id, sig
            );
            std::process::exit(2);
        }
    }
}
