//! vcheck <ID> --tier quick|thorough [--seed N] [--replay FILE]
//!
//! exit 0 = property held on everything explored, 1 = violation (VIOLATION line printed),
//! 2 = inconclusive (build/usage problem, watchdog, crash that could not be reproduced).

use std::os::unix::process::ExitStatusExt;
use std::path::{Path, PathBuf};
use std::process::{Command, Stdio};
use std::sync::atomic::AtomicBool;
use std::time::{Duration, Instant};
use vh::engine::{self, RunEnv, Tier};

struct Args {
    id: String,
    tier: Tier,
    seed: u64,
    replay: Option<PathBuf>,
    child: bool,
    trace: bool,
    /// a libFuzzer input to be turned into a replay file and replayed
    fuzz_input: Option<PathBuf>,
    part: Option<String>,
    /// write generated cases of `part` (JSON) into this directory: seeds of a fuzz corpus
    emit_corpus: Option<PathBuf>,
    count: u64,
}

fn parse_args() -> Result<Args, String> {
    let mut it = std::env::args().skip(1);
    let id = it.next().ok_or("usage: vcheck <ID> --tier quick|thorough")?;
    let mut tier = match std::env::var("VERIF_TIER").ok().as_deref() {
        Some("thorough") => Tier::Thorough,
        _ => Tier::Quick,
    };
    let mut tier_explicit = false;
    let mut seed = std::env::var("VERIF_SEED")
        .ok()
        .and_then(|s| s.trim().parse::<i64>().ok())
        .map(|v| v as u64)
        .unwrap_or(0);
    let mut replay = None;
    let mut child = false;
    let mut trace = false;
    let mut fuzz_input = None;
    let mut part = None;
    let mut emit_corpus = None;
    let mut count = 64u64;
    while let Some(a) = it.next() {
        match a.as_str() {
            "--tier" => {
                let t = it.next().ok_or("--tier needs a value")?;
                tier = match t.as_str() {
                    "quick" => Tier::Quick,
                    "thorough" => Tier::Thorough,
                    _ => return Err(format!("unknown tier {}", t)),
                };
                tier_explicit = true;
            }
            "--seed" => {
                seed = it
                    .next()
                    .ok_or("--seed needs a value")?
                    .parse::<i64>()
                    .map_err(|e| e.to_string())? as u64
            }
            "--replay" => replay = Some(PathBuf::from(it.next().ok_or("--replay needs a file")?)),
            "--fuzz-input" => fuzz_input = Some(PathBuf::from(it.next().ok_or("--fuzz-input needs a file")?)),
            "--part" => part = Some(it.next().ok_or("--part needs a name")?),
            "--emit-corpus" => emit_corpus = Some(PathBuf::from(it.next().ok_or("--emit-corpus needs a directory")?)),
            "--count" => count = it.next().ok_or("--count needs a value")?.parse::<u64>().map_err(|e| e.to_string())?,
            "--child" => child = true,
            "--trace" => trace = true,
            other => return Err(format!("unknown argument {}", other)),
        }
    }
    let _ = tier_explicit;
    Ok(Args {
        id,
        tier,
        seed,
        replay,
        child,
        trace,
        fuzz_input,
        part,
        emit_corpus,
        count,
    })
}

fn child_main(args: &Args) -> i32 {
    engine::install_panic_hook();
    let Some(prop) = vh::props::build(&args.id) else {
        eprintln!("unknown property {}", args.id);
        return 2;
    };
    let jobs = std::env::var("VERIF_JOBS")
        .ok()
        .and_then(|s| s.parse().ok())
        .unwrap_or_else(|| {
            std::thread::available_parallelism()
                .map(|n| n.get())
                .unwrap_or(8)
                .min(16)
        });
    let scale = std::env::var("VERIF_SCALE")
        .ok()
        .and_then(|s| s.parse().ok())
        .unwrap_or(1.0);
    let env = RunEnv {
        property: args.id.clone(),
        tier: args.tier,
        seed: args.seed,
        jobs,
        known: vh::known::global().clone(),
        trace: args.trace,
        stop: AtomicBool::new(false),
        scale,
    };
    if let Some(path) = &args.replay {
        return engine::replay_file(&prop, &env, path);
    }
    engine::run_property(&prop, &env).exit
}

enum ChildEnd {
    Exit(i32),
    Signal(i32),
    Timeout,
}

fn run_child(extra: &[&str], timeout: Duration, quiet: bool) -> ChildEnd {
    let exe = std::env::current_exe().expect("current_exe");
    let mut cmd = Command::new(exe);
    for a in std::env::args().skip(1) {
        cmd.arg(a);
    }
    for a in extra {
        cmd.arg(a);
    }
    if quiet {
        cmd.stdout(Stdio::null());
        cmd.stderr(Stdio::null());
    }
    let mut child = cmd.spawn().expect("spawn child");
    let t0 = Instant::now();
    loop {
        match child.try_wait() {
            Ok(Some(st)) => {
                if let Some(c) = st.code() {
                    return ChildEnd::Exit(c);
                }
                return ChildEnd::Signal(st.signal().unwrap_or(0));
            }
            Ok(None) => {
                if t0.elapsed() > timeout {
                    let _ = child.kill();
                    let _ = child.wait();
                    return ChildEnd::Timeout;
                }
                std::thread::sleep(Duration::from_millis(50));
            }
            Err(_) => return ChildEnd::Exit(2),
        }
    }
}

fn replay_in_child(id: &str, file: &Path, timeout: Duration) -> ChildEnd {
    let exe = std::env::current_exe().expect("current_exe");
    let mut cmd = Command::new(exe);
    cmd.arg(id)
        .arg("--replay")
        .arg(file)
        .arg("--child")
        .stdout(Stdio::null())
        .stderr(Stdio::null());
    let mut child = cmd.spawn().expect("spawn child");
    let t0 = Instant::now();
    loop {
        match child.try_wait() {
            Ok(Some(st)) => {
                if let Some(c) = st.code() {
                    return ChildEnd::Exit(c);
                }
                return ChildEnd::Signal(st.signal().unwrap_or(0));
            }
            Ok(None) => {
                if t0.elapsed() > timeout {
                    let _ = child.kill();
                    let _ = child.wait();
                    return ChildEnd::Timeout;
                }
                std::thread::sleep(Duration::from_millis(20));
            }
            Err(_) => return ChildEnd::Exit(2),
        }
    }
}

/// A libFuzzer artifact is never reported directly: it becomes a replay file, and the replay decides.
fn fuzz_input_main(args: &Args, input: &Path) -> i32 {
    let data = match std::fs::read(input) {
        Ok(d) => d,
        Err(e) => {
            eprintln!("cannot read {}: {}", input.display(), e);
            return 2;
        }
    };
    let replay: PathBuf = if args.id == "C10" {
        // input of the `decoders` target: first byte = entry point, rest = untrusted bytes
        if data.is_empty() {
            return 0;
        }
        let entry = data[0] % vh::props::c10::N_ENTRIES as u8;
        let hex: String = data[1..].iter().map(|b| format!("{:02x}", b)).collect();
        let doc = serde_json::json!({"property": "C10", "part": "bytes", "expect": "pass", "sig": "", "msg": "libFuzzer input of the decoders target",
            "case": {"entry": entry, "entry_name": vh::props::c10::entry_name(entry), "bytes_hex": hex}});
        let dir = Path::new(engine::VERIF_ROOT).join("replays").join("C10");
        let _ = std::fs::create_dir_all(&dir);
        let path = dir.join(format!("fail-fuzz-bytes-{:016x}.json", engine::hash_json(&doc)));
        if std::fs::write(&path, serde_json::to_vec_pretty(&doc).unwrap_or_default()).is_err() {
            return 2;
        }
        path
    } else {
        let Some(prop) = vh::props::build(&args.id) else {
            eprintln!("unknown property {}", args.id);
            return 2;
        };
        let Some(part) = &args.part else {
            eprintln!("--fuzz-input needs --part");
            return 2;
        };
        match engine::fuzz_input_to_replay(&prop, part, &data) {
            Ok(p) => p,
            Err(e) => {
                eprintln!("note: {}", e);
                return 0;
            }
        }
    };
    match replay_in_child_verbose(&args.id, &replay, Duration::from_secs(600)) {
        ChildEnd::Exit(0) => {
            let _ = std::fs::remove_file(&replay);
            0
        }
        ChildEnd::Exit(c) => c,
        ChildEnd::Timeout => {
            println!("INCONCLUSIVE property={} replay of {} did not finish within 600 s (not a violation)", args.id, replay.display());
            2
        }
        ChildEnd::Signal(sig) => {
            println!("  failure [crash/signal-{}]: the case generated from the libFuzzer input kills the process", sig);
            println!("VIOLATION property={} replay={}", args.id, replay.display());
            1
        }
    }
}

fn replay_in_child_verbose(id: &str, file: &Path, timeout: Duration) -> ChildEnd {
    let exe = std::env::current_exe().expect("current_exe");
    let mut cmd = Command::new(exe);
    cmd.arg(id).arg("--replay").arg(file).arg("--child");
    let mut child = cmd.spawn().expect("spawn child");
    let t0 = Instant::now();
    loop {
        match child.try_wait() {
            Ok(Some(st)) => {
                if let Some(c) = st.code() {
                    return ChildEnd::Exit(c);
                }
                return ChildEnd::Signal(st.signal().unwrap_or(0));
            }
            Ok(None) => {
                if t0.elapsed() > timeout {
                    let _ = child.kill();
                    let _ = child.wait();
                    return ChildEnd::Timeout;
                }
                std::thread::sleep(Duration::from_millis(20));
            }
            Err(_) => return ChildEnd::Exit(2),
        }
    }
}

fn main() {
    let args = match parse_args() {
        Ok(a) => a,
        Err(e) => {
            eprintln!("{}", e);
            std::process::exit(2);
        }
    };
    if let Some(input) = &args.fuzz_input {
        std::process::exit(fuzz_input_main(&args, input));
    }
    if let Some(dir) = &args.emit_corpus {
        let Some(prop) = vh::props::build(&args.id) else {
            eprintln!("unknown property {}", args.id);
            std::process::exit(2);
        };
        let part = args.part.clone().unwrap_or_default();
        let Some(p) = prop.parts.iter().find(|p| p.name() == part) else {
            eprintln!("unknown part {}", part);
            std::process::exit(2);
        };
        let _ = std::fs::create_dir_all(dir);
        let mut n = 0;
        for i in 0..args.count {
            if let Some(case) = p.generate(engine::splitmix(args.seed.wrapping_mul(1_000_003).wrapping_add(i))) {
                if std::fs::write(dir.join(format!("seed-{:04}.json", i)), serde_json::to_vec(&case).unwrap_or_default()).is_ok() {
                    n += 1;
                }
            }
        }
        println!("{} generated cases written to {}", n, dir.display());
        std::process::exit(0);
    }
    if args.child {
        std::process::exit(child_main(&args));
    }
    let default_timeout = match args.tier {
        Tier::Quick => 900,
        Tier::Thorough => 8 * 3600,
    };
    let timeout = Duration::from_secs(
        std::env::var("VERIF_TIMEOUT_S")
            .ok()
            .and_then(|s| s.parse().ok())
            .unwrap_or(default_timeout),
    );
    match run_child(&["--child"], timeout, false) {
        ChildEnd::Exit(c) => std::process::exit(c),
        ChildEnd::Timeout => {
            println!(
                "INCONCLUSIVE property={} watchdog after {}s (not a violation)",
                args.id,
                timeout.as_secs()
            );
            std::process::exit(2);
        }
        ChildEnd::Signal(sig) => {
            println!(
                "{}: checker process died with signal {}; re-running in trace mode to recover the case",
                args.id, sig
            );
            if args.replay.is_some() {
                println!(
                    "VIOLATION property={} replay={}",
                    args.id,
                    args.replay.as_ref().unwrap().display()
                );
                std::process::exit(1);
            }
            let trace_dir = Path::new(engine::VERIF_ROOT)
                .join("target")
                .join("trace")
                .join(&args.id);
            let _ = std::fs::remove_dir_all(&trace_dir);
            let _ = run_child(&["--child", "--trace"], timeout, true);
            let mut files: Vec<PathBuf> = std::fs::read_dir(&trace_dir)
                .map(|rd| rd.filter_map(|e| e.ok().map(|e| e.path())).collect())
                .unwrap_or_default();
            files.sort();
            for f in files {
                match replay_in_child(&args.id, &f, Duration::from_secs(300)) {
                    ChildEnd::Signal(s2) => {
                        let dir = Path::new(engine::VERIF_ROOT).join("replays").join(&args.id);
                        let _ = std::fs::create_dir_all(&dir);
                        let dst = dir.join(format!(
                            "fail-crash-sig{}-s{}-{}",
                            s2,
                            args.seed,
                            f.file_name().unwrap().to_string_lossy()
                        ));
                        let _ = std::fs::copy(&f, &dst);
                        println!(
                            "  failure [crash/signal-{}]: the stored case kills the process",
                            s2
                        );
                        println!("VIOLATION property={} replay={}", args.id, dst.display());
                        std::process::exit(1);
                    }
                    _ => {}
                }
            }
            // A crash that does not reproduce in a fresh process is typically a use of freed memory
            // whose effect depends on the heap of a long-running process.  run.sh replays the traced
            // cases in the AddressSanitizer build (exit code 3 asks for that).
            println!(
                "CRASH-UNREPRODUCED property={} signal={} traces={}",
                args.id,
                sig,
                trace_dir.display()
            );
            std::process::exit(3);
        }
    }
}
