fn main() {
    std::process::exit(vh_dec_worker());
}
fn vh_dec_worker() -> i32 { 0 }
