//! Isolated decoder process for C10.
//!
//! Protocol (binary on stdin, text on stdout): request = [u8 entry][u32 le len][bytes];
//! response = one line "D <outcome> <maxrss_kb> <cpu_ms> <detail>" where outcome is
//! ok | err | panic.  A crash (stack overflow, abort, sanitizer report) ends the process; the
//! supervisor attributes it to the request it was waiting for.
//!
//! Each request is decoded on a thread with a 2 MiB stack (Rust's default thread stack).

#![allow(unused_imports)]
use std::io::{Read, Write};
use yrs::encoding::read::Cursor;
use yrs::sync::{AwarenessUpdate, MessageReader};
use yrs::updates::decoder::{Decode, DecoderV1};
use yrs::updates::encoder::{Encode, Encoder, EncoderV1};
use yrs::{Any, IdSet, Snapshot, StateVector, StickyIndex, Update};

pub const ENTRIES: [&str; 21] = [
    "Update::decode_v1",
    "Update::decode_v2",
    "StateVector::decode_v1",
    "StateVector::decode_v2",
    "Snapshot::decode_v1",
    "Snapshot::decode_v2",
    "IdSet::decode_v1",
    "IdSet::decode_v2",
    "StickyIndex::decode_v1",
    "StickyIndex::decode_v2",
    "StickyIndex::from_json",
    "Any::decode",
    "Any::from_json",
    "MessageReader",
    "AwarenessUpdate::decode_v1",
    "merge_updates_v1",
    "merge_updates_v2",
    "diff_updates_v1",
    "diff_updates_v2",
    "encode_state_vector_from_update_v1",
    "encode_state_vector_from_update_v2",
];

use vh::props::c10::run_entry as run;

fn maxrss_kb() -> i64 {
    unsafe {
        let mut ru: libc::rusage = std::mem::zeroed();
        libc::getrusage(libc::RUSAGE_SELF, &mut ru);
        ru.ru_maxrss as i64
    }
}

fn cpu_ms() -> i64 {
    unsafe {
        let mut ru: libc::rusage = std::mem::zeroed();
        libc::getrusage(libc::RUSAGE_SELF, &mut ru);
        // user time only: system time (page faults, mmap) of a process multiplies when dozens of
        // workers compete for the kernel's memory-management locks, user time does not
        ru.ru_utime.tv_sec as i64 * 1000 + ru.ru_utime.tv_usec as i64 / 1000
    }
}

fn main() {
    // optional address-space limit (MiB) — not usable under AddressSanitizer
    if let Ok(mb) = std::env::var("DEC_WORKER_AS_MB") {
        if let Ok(mb) = mb.parse::<u64>() {
            unsafe {
                let lim = libc::rlimit { rlim_cur: mb << 20, rlim_max: mb << 20 };
                libc::setrlimit(libc::RLIMIT_AS, &lim);
            }
        }
    }
    std::panic::set_hook(Box::new(|info| {
        let loc = info.location().map(|l| format!("{}:{}", l.file(), l.line())).unwrap_or_else(|| "?".into());
        let msg = if let Some(s) = info.payload().downcast_ref::<&str>() {
            s.to_string()
        } else if let Some(s) = info.payload().downcast_ref::<String>() {
            s.clone()
        } else {
            "?".to_string()
        };
        PANIC.with(|p| *p.borrow_mut() = Some(format!("{} {}", loc, msg.replace('\n', " "))));
        // the decoding thread is a different thread than main: use a global
        *LAST_PANIC.lock().unwrap() = Some(format!("{} {}", loc, msg.replace('\n', " ")));
    }));
    let stdin = std::io::stdin();
    let mut stdin = stdin.lock();
    let stdout = std::io::stdout();
    let mut stdout = stdout.lock();
    loop {
        let mut head = [0u8; 5];
        if stdin.read_exact(&mut head).is_err() {
            break;
        }
        let entry = head[0];
        let len = u32::from_le_bytes([head[1], head[2], head[3], head[4]]) as usize;
        let mut data = vec![0u8; len];
        if stdin.read_exact(&mut data).is_err() {
            break;
        }
        let rss0 = maxrss_kb();
        let cpu0 = cpu_ms();
        *LAST_PANIC.lock().unwrap() = None;
        let handle = std::thread::Builder::new().stack_size(2 << 20).spawn(move || run(entry, &data)).expect("spawn");
        let res = handle.join();
        let rss1 = maxrss_kb();
        let cpu1 = cpu_ms();
        let (outcome, detail) = match res {
            Ok(true) => ("ok", String::new()),
            Ok(false) => ("err", String::new()),
            Err(_) => ("panic", LAST_PANIC.lock().unwrap().clone().unwrap_or_default()),
        };
        let _ = writeln!(stdout, "D {} {} {} {}", outcome, rss1 - rss0, cpu1 - cpu0, detail);
        let _ = stdout.flush();
    }
}

thread_local! {
    static PANIC: std::cell::RefCell<Option<String>> = std::cell::RefCell::new(None);
}
static LAST_PANIC: std::sync::Mutex<Option<String>> = std::sync::Mutex::new(None);
