pub mod engine;
pub mod known;
pub mod props;
