pub mod dump;
pub mod engine;
pub mod interp;
pub mod known;
pub mod ops;
pub mod props;
pub mod val;
pub mod world;
