NOT_CLAIMED = {}
CLAIMED = {
 "C16": ("exploration",
         "Complete enumeration of a small universe (all <=3-step insert/remove sequences over every range of 8 clocks for IdSet and of 5 clocks x 2 attributes for IdMap; every ordered pair of the 256 canonical sets for every binary operation) plus seeded random operation sequences over 3 clients x 64 clocks, all compared with a bit-mask model and a canonical-form predicate. Exhaustive for the small universe, sampling beyond it.",
         "Trusts the bit-mask model; universe is small (8/5 clocks enumerated, 64 clocks random); document delete sets are compared with the block store through hook store_blocks.",
         "exhaustive small-scope enumeration + proptest model-based random sequences",
         "DESIGN.md section 4, C16"),
 "C01": ("exploration",
         "Generated multi-replica histories (every op kind, nesting, GC/offset configs, distinct client ids) followed by per-receiver generated delivery schedules (permutation, duplication, merge in transit, diff_updates, v1/v2 per delivery; every permutation when <=5 updates); oracle = nothing pending, state vector = join, canonical dump equal to a reference replica that applied the updates in emission order. Sampling of an unbounded space with shrinking; sizes are small.",
         "Equality is the canonical dump through the public read API; strict clause uses cleanup_formatting=false replicas (a replica with automatic format clean-up makes changes of its own); embed/format values are JSON-representable (lib0 v1 carries them as JSON text).",
         "proptest stateful histories x schedules, metamorphic oracle (any schedule == emission order)",
         "DESIGN.md section 4, C01"),
 "C03": ("exploration",
         "Model-based testing: generated API programs on one replica (all listed calls on root and nested types, arbitrary transaction grouping, both offset kinds, gc on/off, clean-up on/off) compared after every call and every commit with a reference model (string-with-attributes / vector / dictionary / tree).",
         "Trusts the reference model (validated against the rustdoc contract); arguments in range and on character boundaries; embeds are non-strings.",
         "proptest model-based (reference model) testing with shrinking",
         "DESIGN.md section 4, C03"),
}
