NOT_CLAIMED = {}
CLAIMED = {
 "C16": ("exploration",
         "Complete enumeration of a small universe (all <=3-step insert/remove sequences over every range of 8 clocks for IdSet and of 5 clocks x 2 attributes for IdMap; every ordered pair of the 256 canonical sets for every binary operation) plus seeded random operation sequences over 3 clients x 64 clocks, all compared with a bit-mask model and a canonical-form predicate. Exhaustive for the small universe, sampling beyond it.",
         "Trusts the bit-mask model; universe is small (8/5 clocks enumerated, 64 clocks random); document delete sets are compared with the block store through hook store_blocks.",
         "exhaustive small-scope enumeration + proptest model-based random sequences",
         "DESIGN.md section 4, C16"),
}
