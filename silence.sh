#!/bin/bash
# usage: silence.sh <seed> [<seed> ...]
# Runs every quick check on the current tree once per seed and lists what was not silent.
# A check that is right must exit 0 for every seed on the unchanged tree; anything else is either
# a genuine defect (F22 was found this way) or a flaky oracle to be corrected.
set -u
OUT=/verif/target/silence
mkdir -p "$OUT"
bad=0
for seed in "$@"; do
  for n in $(seq -w 1 20); do
    id="C$n"
    log="$OUT/$id-s$seed.log"
    VERIF_SEED=$seed /verif/run.sh "$id" quick >"$log" 2>&1
    rc=$?
    if [ $rc -ne 0 ] || grep -q "^VIOLATION" "$log"; then
      echo "NOT SILENT: $id seed=$seed rc=$rc log=$log"
      grep -m3 "VIOLATION\|INCONCLUSIVE\|fails \[" "$log"
      bad=$((bad+1))
    fi
  done
  echo "seed $seed done ($bad not silent so far)"
done
exit $((bad > 0))
