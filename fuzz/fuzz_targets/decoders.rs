//! C10: first byte = entry point of the decoder worker, rest = untrusted input.  Panics are caught
//! and reported as crashes; memory errors are reported by AddressSanitizer; `-malloc_limit_mb` and
//! `-timeout` bound memory and time.
#![no_main]
use libfuzzer_sys::fuzz_target;
use std::sync::Once;

static INIT: Once = Once::new();

fuzz_target!(|data: &[u8]| {
    INIT.call_once(|| {
        std::panic::set_hook(Box::new(|_| {}));
    });
    if data.is_empty() {
        return;
    }
    let entry = data[0] % vh::props::c10::N_ENTRIES as u8;
    let input = &data[1..];
    let r = std::panic::catch_unwind(|| vh::props::c10::run_entry(entry, input));
    if let Err(p) = r {
        let msg = p.downcast_ref::<String>().cloned().or_else(|| p.downcast_ref::<&str>().map(|s| s.to_string())).unwrap_or_default();
        eprintln!("FUZZ-FAILURE decoder entry {} ({}) panicked: {}", entry, vh::props::c10::entry_name(entry), msg);
        std::process::abort();
    }
});
