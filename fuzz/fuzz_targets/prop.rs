//! Generic coverage-guided target: the input bytes are the entropy of the strategy of one part of
//! one property (`VH_FUZZ=<ID>:<part>`), the oracle is the property's own check.  A failure that is
//! not a listed known finding is written as a JSON replay and turned into a crash.
#![no_main]
use libfuzzer_sys::fuzz_target;
use std::sync::OnceLock;

struct Ctx {
    prop: vh::engine::Property,
    part: String,
    out: std::path::PathBuf,
}

static CTX: OnceLock<Ctx> = OnceLock::new();

fn ctx() -> &'static Ctx {
    CTX.get_or_init(|| {
        let spec = std::env::var("VH_FUZZ").expect("VH_FUZZ=<ID>:<part>");
        let (id, part) = spec.split_once(':').expect("VH_FUZZ=<ID>:<part>");
        // panics inside a case are caught and classified by the check (libFuzzer's own hook would abort)
        vh::engine::install_panic_hook();
        let prop = vh::props::build(id).expect("unknown property id");
        let out = std::path::Path::new(vh::engine::VERIF_ROOT).join("fuzz").join("artifacts-json").join(id);
        Ctx { prop, part: part.to_string(), out }
    })
}

fuzz_target!(|data: &[u8]| {
    let c = ctx();
    if let Err(msg) = vh::engine::fuzz_one(&c.prop, &c.part, vh::known::global(), data, &c.out) {
        eprintln!("FUZZ-FAILURE {}", msg);
        std::process::abort();
    }
});
