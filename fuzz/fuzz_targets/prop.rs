//! Generic coverage-guided target.  An input is a *case* of one part of one property
//! (`VH_FUZZ=<ID>:<part>`) in the JSON form the replay files use; the oracle is the part's own check;
//! mutation is structure-aware (`vh::engine::mutate_case`: list surgery on steps / operations /
//! schedules, grafts from freshly generated donor cases, number and flag tweaks), so every input
//! libFuzzer tries is a well-formed case and coverage feedback steers *which* histories are grown.
//! A failure that is not a listed known finding is written as a replay and turned into a crash.
#![no_main]
use libfuzzer_sys::{fuzz_mutator, fuzz_target};
use std::sync::OnceLock;

struct Ctx {
    prop: vh::engine::Property,
    part: String,
    out: std::path::PathBuf,
}

static CTX: OnceLock<Ctx> = OnceLock::new();

fn ctx() -> &'static Ctx {
    CTX.get_or_init(|| {
        let spec = std::env::var("VH_FUZZ").expect("VH_FUZZ=<ID>:<part>");
        let (id, part) = spec.split_once(':').expect("VH_FUZZ=<ID>:<part>");
        // panics inside a case are caught and classified by the check (libFuzzer's own hook would abort)
        vh::engine::install_panic_hook();
        let prop = vh::props::build(id).expect("unknown property id");
        let out = std::path::Path::new(vh::engine::VERIF_ROOT).join("fuzz").join("artifacts-json").join(id);
        Ctx { prop, part: part.to_string(), out }
    })
}

fuzz_target!(|data: &[u8]| {
    let c = ctx();
    if let Err(msg) = vh::engine::fuzz_one(&c.prop, &c.part, vh::known::global(), data, &c.out) {
        eprintln!("FUZZ-FAILURE {}", msg);
        std::process::abort();
    }
});

fuzz_mutator!(|data: &mut [u8], size: usize, max_size: usize, seed: u32| {
    let c = ctx();
    let Some(part) = c.prop.parts.iter().find(|p| p.name() == c.part) else { return size };
    let s = vh::engine::splitmix(seed as u64 ^ 0xC0FF_EE00_0000_0000);
    let current: Option<serde_json::Value> = serde_json::from_slice(&data[..size]).ok();
    let next = match current {
        // not a case (empty / foreign seed file): start from a generated one
        None => part.generate(s),
        Some(cur) => {
            if s % 16 == 0 {
                part.generate(vh::engine::splitmix(s))
            } else {
                part.generate(vh::engine::splitmix(s ^ 1)).map(|donor| vh::engine::mutate_case(&cur, &donor, s))
            }
        }
    };
    let Some(next) = next else { return size };
    let Ok(bytes) = serde_json::to_vec(&next) else { return size };
    if bytes.len() > max_size || bytes.is_empty() {
        return size;
    }
    data[..bytes.len()].copy_from_slice(&bytes);
    bytes.len()
});
