#!/bin/bash
# builds the isolated decoder workers (shipping settings, and the same under AddressSanitizer),
# then runs the C10 check.  exit 2 = inconclusive (build problem).
MODE="${1:-quick}"
cd /verif/harness || exit 2
export CARGO_NET_OFFLINE=true
LOG=/verif/target/build-C10-worker-$$.log
if ! cargo build --profile ship --bin dec_worker >"$LOG" 2>&1; then
  echo "INCONCLUSIVE property=C10 building dec_worker (ship) failed"; grep -E "^error" -A10 "$LOG" | head -40; rm -f "$LOG"; exit 2
fi
if ! RUSTFLAGS="--cfg y_crdt_y_crdt_verif -Zsanitizer=address" cargo +nightly build --profile ship --bin dec_worker \
      --target x86_64-unknown-linux-gnu --target-dir /verif/target/asan >"$LOG" 2>&1; then
  echo "note: AddressSanitizer build of dec_worker failed; continuing with the shipping worker only"
  grep -E "^error" -A6 "$LOG" | head -20
  rm -rf /verif/target/asan/x86_64-unknown-linux-gnu/ship/dec_worker
fi
rm -f "$LOG"
if [ "$MODE" = "replay" ]; then
  exec /verif/target/debug/vcheck C10 --replay "$2"
fi
exec /verif/target/debug/vcheck C10 --tier "$MODE"
