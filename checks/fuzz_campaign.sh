#!/bin/bash
# Coverage-guided campaigns of the thorough tier:  fuzz_campaign.sh <ID>
# For every line of /verif/fuzz/campaigns.txt that names <ID>: libFuzzer (-seed=VERIF_SEED+1,
# fixed -runs per job, 8 jobs, fresh corpus seeded from /verif/fuzz/seeds) on the generic target
# `prop` (bytes = entropy of the part's own strategy, oracle = the part's own check) or on
# `decoders` (C10).  A crash artifact is replayed through vcheck, which decides:
#   exit 0 = nothing found (or only artifacts that do not reproduce outside of libFuzzer: noted),
#   exit 1 = violation (VIOLATION line printed by vcheck).
# A campaign that cannot be built or started is reported as a note and does not change the verdict.
set -u
ID="${1:?property id}"
SEED=$(( ${VERIF_SEED:-0} + 1 ))
JOBS=${VERIF_FUZZ_JOBS:-8}
SCALE=${VERIF_SCALE:-1}
FUZZ=/verif/fuzz
BIN_DIR=/verif/target/fuzz/x86_64-unknown-linux-gnu/release
export CARGO_NET_OFFLINE=true
grep -q "^$ID " $FUZZ/campaigns.txt || exit 0
LOG=/verif/target/build-fuzz-$ID-$$.log
if ! (cd /verif/harness && RUSTFLAGS="--cfg y_crdt_y_crdt_verif" cargo +nightly fuzz build --fuzz-dir $FUZZ --target-dir /verif/target/fuzz >"$LOG" 2>&1); then
  echo "note: property=$ID coverage-guided campaign skipped, the libFuzzer targets did not build:"
  grep -E "^error" -A6 "$LOG" | head -20
  rm -f "$LOG"; exit 0
fi
rm -f "$LOG"
VERDICT=0
SUMMARY="["
while read -r pid part target runs; do
  [ "$pid" = "$ID" ] || continue
  runs=$(python3 -c "print(max(1000,int($runs*$SCALE)))")
  work=$FUZZ/corpus-work/$ID-$part
  art=$FUZZ/artifacts/$ID-$part
  rm -rf "$work" "$art"; mkdir -p "$work" "$art"
  # seeds: a few blobs of pseudo-random bytes of different lengths (deterministic) + committed seeds
  python3 - "$work" "$SEED" <<'PY'
import sys,random
d,seed=sys.argv[1],int(sys.argv[2])
r=random.Random(seed)
for i,n in enumerate([64,256,1024,4096]):
    open(f"{d}/seed-{i}","wb").write(bytes(r.getrandbits(8) for _ in range(n)))
PY
  [ -d $FUZZ/seeds/$ID-$part ] && cp $FUZZ/seeds/$ID-$part/* "$work"/ 2>/dev/null
  extra=""
  if [ "$target" = "decoders" ]; then extra="-malloc_limit_mb=512 -rss_limit_mb=3072 -timeout=25"; else extra="-rss_limit_mb=4096 -timeout=120"; fi
  t0=$(date +%s)
  (cd "$art" && VH_FUZZ=$ID:$part $BIN_DIR/$target -artifact_prefix="$art/" -runs=$runs -max_len=8192 -len_control=0 \
      -seed=$SEED -jobs=$JOBS -workers=$JOBS -print_final_stats=1 $extra "$work" > "$art/driver.log" 2>&1)
  rc=$?
  t1=$(date +%s)
  execs=$(grep -h "stat::number_of_executed_units" "$art"/fuzz-*.log 2>/dev/null | awk '{s+=$2} END{print s+0}')
  corpus=$(ls "$work" | wc -l)
  crashes=$(ls "$art" | grep -c -E "^(crash|oom|timeout|leak)-")
  echo "$ID fuzz campaign $part ($target): $execs executions in $((t1-t0))s, corpus $corpus, artifacts $crashes"
  SUMMARY="$SUMMARY{\"part\":\"$part\",\"target\":\"$target\",\"executions\":$execs,\"corpus_files\":$corpus,\"artifacts\":$crashes,\"seconds\":$((t1-t0)),\"seed\":$SEED},"
  if [ "$crashes" -gt 0 ]; then
    for f in "$art"/crash-* "$art"/oom-* "$art"/timeout-*; do
      [ -f "$f" ] || continue
      if [ "$target" = "decoders" ]; then
        # the first byte selects the entry point: hand it to the C10 machinery as an input of its own
        /verif/target/debug/vcheck C10 --fuzz-input "$f" ; r=$?
      else
        /verif/target/debug/vcheck "$ID" --fuzz-input "$f" --part "$part"; r=$?
      fi
      if [ $r -eq 1 ]; then VERDICT=1; break; fi
      if [ $r -ne 0 ]; then
        # (resource limits of libFuzzer under load, ASan-only effects): reported, never a violation
        echo "note: property=$ID artifact $(basename $f) of campaign $part did not reproduce a property failure outside of libFuzzer (exit $r); kept as $FUZZ/artifacts/$ID-$part/$(basename $f)"
      fi
    done
  fi
  rm -rf "$work"
  [ $VERDICT -eq 1 ] && break
done < <(grep -v "^#" $FUZZ/campaigns.txt)
SUMMARY="${SUMMARY%,}]"
# record the campaigns in the evidence file written by vcheck
python3 - "$ID" "$SUMMARY" <<'PY'
import json,sys
p=f"/verif/evidence/{sys.argv[1]}.json"
try:
    d=json.load(open(p)); d["coverage"]["fuzz_campaigns"]=json.loads(sys.argv[2]); json.dump(d,open(p,"w"),indent=1)
except Exception as e:
    print("note: could not record the campaign in the evidence file:",e)
PY
exit $VERDICT
