#!/bin/bash
# Coverage-guided campaigns of the thorough tier:  fuzz_campaign.sh <ID>
# For every line of /verif/fuzz/campaigns.txt that names <ID>: libFuzzer (-seed=VERIF_SEED+1,
# fixed -runs per job, 8 jobs, fresh corpus of 64 generated cases) on the generic target `prop`
# (input = a case as JSON, structure-aware mutator, oracle = the part's own check) or on
# `decoders` (C10).  A crash artifact is replayed through vcheck, which decides:
#   exit 0 = nothing found (or only artifacts that do not reproduce outside of libFuzzer: noted),
#   exit 1 = violation (VIOLATION line printed by vcheck).
# A campaign that cannot be built or started is reported as a note and does not change the verdict.
set -u
ID="${1:?property id}"
SEED=$(( ${VERIF_SEED:-0} + 1 ))
JOBS=${VERIF_FUZZ_JOBS:-8}
SCALE=${VERIF_SCALE:-1}
FUZZ=/verif/fuzz
BIN_DIR=/verif/target/fuzz/x86_64-unknown-linux-gnu/release
export CARGO_NET_OFFLINE=true
grep -q "^$ID " $FUZZ/campaigns.txt || exit 0
LOG=/verif/target/build-fuzz-$ID-$$.log
# the semantic target keeps debug assertions (a failed assertion of yrs on a valid program is a
# failure); the decoders target is built like a shipping build (-O: no debug assertions), because
# debug-only overflow / range assertions on garbage are not violations of C10
if [ "$ID" = "C10" ]; then BUILD="-O decoders"; TDIR=/verif/target/fuzz-opt; else BUILD="prop"; TDIR=/verif/target/fuzz; fi
BIN_DIR=$TDIR/x86_64-unknown-linux-gnu/release
if ! (cd /verif/harness && RUSTFLAGS="--cfg y_crdt_y_crdt_verif" cargo +nightly fuzz build $BUILD --fuzz-dir $FUZZ --target-dir $TDIR >"$LOG" 2>&1); then
  echo "note: property=$ID coverage-guided campaign skipped, the libFuzzer targets did not build:"
  grep -E "^error" -A6 "$LOG" | head -20
  rm -f "$LOG"; exit 0
fi
rm -f "$LOG"
VERDICT=0
SUMMARY="["
while read -r pid part target runs; do
  [ "$pid" = "$ID" ] || continue
  runs=$(python3 -c "print(max(1000,int($runs*$SCALE)))")
  work=$FUZZ/corpus-work/$ID-$part
  art=$FUZZ/artifacts/$ID-$part
  rm -rf "$work" "$art"; mkdir -p "$work" "$art"
  # seeds: generated cases of the part (deterministic in SEED) / valid payloads for the decoders
  if [ "$target" = "decoders" ]; then
    python3 - "$work" "$SEED" <<'PY'
import sys,random
d,seed=sys.argv[1],int(sys.argv[2])
r=random.Random(seed)
for i,n in enumerate([8,64,256,1024]):
    open(f"{d}/seed-{i}","wb").write(bytes(r.getrandbits(8) for _ in range(n)))
PY
  else
    /verif/target/debug/vcheck "$ID" --emit-corpus "$work" --part "$part" --count 64 --seed "$SEED" >/dev/null
  fi
  [ -d $FUZZ/seeds/$ID-$part ] && cp $FUZZ/seeds/$ID-$part/* "$work"/ 2>/dev/null
  extra=""
  if [ "$target" = "decoders" ]; then extra="-malloc_limit_mb=512 -rss_limit_mb=3072 -timeout=25"; maxlen=65536; else extra="-rss_limit_mb=4096 -timeout=120"; maxlen=262144; fi
  t0=$(date +%s)
  (cd "$art" && ASAN_OPTIONS=detect_leaks=0:detect_odr_violation=0:allocator_may_return_null=1:max_allocation_size_mb=4096 VH_FUZZ=$ID:$part $BIN_DIR/$target -artifact_prefix="$art/" -runs=$runs -max_len=$maxlen -len_control=0 \
      -seed=$SEED -jobs=$JOBS -workers=$JOBS -print_final_stats=1 -detect_leaks=0 $extra "$work" > "$art/driver.log" 2>&1)
  rc=$?
  t1=$(date +%s)
  execs=0; for l in "$art"/fuzz-*.log; do n=$(grep "stat::number_of_executed_units" "$l" 2>/dev/null | tail -1 | awk '{print $2}'); execs=$((execs + ${n:-0})); done
  corpus=$(ls "$work" | wc -l)
  crashes=$(ls "$art" | grep -c -E "^(crash|oom|timeout|leak)-")
  echo "$ID fuzz campaign $part ($target): $execs executions in $((t1-t0))s, corpus $corpus, artifacts $crashes"
  SUMMARY="$SUMMARY{\"part\":\"$part\",\"target\":\"$target\",\"executions\":$execs,\"corpus_files\":$corpus,\"artifacts\":$crashes,\"seconds\":$((t1-t0)),\"seed\":$SEED},"
  if [ "$crashes" -gt 0 ]; then
    for f in "$art"/crash-* "$art"/oom-* "$art"/timeout-*; do
      [ -f "$f" ] || continue
      if [ "$target" = "decoders" ]; then
        # the first byte selects the entry point: hand it to the C10 machinery as an input of its own
        /verif/target/debug/vcheck C10 --fuzz-input "$f" ; r=$?
      else
        /verif/target/debug/vcheck "$ID" --fuzz-input "$f" --part "$part"; r=$?
      fi
      if [ $r -eq 1 ]; then VERDICT=1; break; fi
      if [ $r -eq 0 ] && [ "$target" = "prop" ]; then
        # passes in the ordinary build: a memory error that only AddressSanitizer sees?  Re-run the
        # single input in the instrumented binary; a sanitizer report on a valid program is a violation
        rep=$(ASAN_OPTIONS=detect_leaks=0:detect_odr_violation=0 VH_FUZZ=$ID:$part $BIN_DIR/$target "$f" 2>&1)
        if echo "$rep" | grep -q "ERROR: AddressSanitizer"; then
          kind=$(echo "$rep" | grep -m1 "ERROR: AddressSanitizer" | sed 's/.*AddressSanitizer: \([a-z-]*\).*/\1/')
          site=$(echo "$rep" | grep -m1 "^SUMMARY: AddressSanitizer" | sed 's/.*\/repo\///; s/ in .*//')
          out=/verif/replays/$ID/fail-asan-$part-$(basename "$f" | cut -c7-22).json
          mkdir -p /verif/replays/$ID
          python3 - "$f" "$out" "$ID" "$part" "$kind" "$site" <<'PY'
import json,sys
f,out,pid,part,kind,site=sys.argv[1:7]
case=json.load(open(f))
json.dump({"property":pid,"part":part,"expect":"pass","asan":True,"sig":"asan/%s/%s"%(kind,site),
           "msg":"AddressSanitizer: %s at %s; passes in an uninstrumented build, reproduce with: /verif/run.sh %s replay <this file>"%(kind,site,pid),"case":case},open(out,"w"),indent=1)
PY
          echo "  failure [asan/$kind/$site]: AddressSanitizer reports $kind at $site while the check executes this (valid) case"
          echo "VIOLATION property=$ID replay=$out"
          VERDICT=1; break
        fi
      fi
      if [ $r -ne 0 ]; then
        # (resource limits of libFuzzer under load, ASan-only effects): reported, never a violation
        echo "note: property=$ID artifact $(basename $f) of campaign $part did not reproduce a property failure outside of libFuzzer (exit $r); kept as $FUZZ/artifacts/$ID-$part/$(basename $f)"
      fi
    done
  fi
  rm -rf "$work"
  [ $VERDICT -eq 1 ] && break
done < <(grep -v "^#" $FUZZ/campaigns.txt)
SUMMARY="${SUMMARY%,}]"
# record the campaigns in the evidence file written by vcheck
python3 - "$ID" "$SUMMARY" <<'PY'
import json,sys
p=f"/verif/evidence/{sys.argv[1]}.json"
try:
    d=json.load(open(p)); d["coverage"]["fuzz_campaigns"]=json.loads(sys.argv[2]); json.dump(d,open(p,"w"),indent=1)
except Exception as e:
    print("note: could not record the campaign in the evidence file:",e)
PY
exit $VERDICT
