#!/bin/bash
# usage: asan_traces.sh <ID> <trace dir>
# The checker process crashed and none of the cases that were running reproduces the crash in a
# fresh process.  Replays those cases in the AddressSanitizer build of the `prop` target: a
# sanitizer report on a (valid) generated case is a violation with an ASan replay file; otherwise
# the crash stays unexplained and the run is inconclusive (exit 2), never a violation.
set -u
ID="$1"; DIR="$2"
export CARGO_NET_OFFLINE=true
(cd /verif/harness && RUSTFLAGS="--cfg y_crdt_y_crdt_verif" cargo +nightly fuzz build prop --fuzz-dir /verif/fuzz --target-dir /verif/target/fuzz >/verif/target/asan-build-$$.log 2>&1) || {
  echo "INCONCLUSIVE property=$ID the checker crashed, the crash does not reproduce in a fresh process and the AddressSanitizer target does not build"
  rm -f /verif/target/asan-build-$$.log; exit 2; }
rm -f /verif/target/asan-build-$$.log
BIN=/verif/target/fuzz/x86_64-unknown-linux-gnu/release/prop
for f in "$DIR"/*.json; do
  [ -f "$f" ] || continue
  part=$(python3 -c "import json,sys;print(json.load(open(sys.argv[1]))['part'])" "$f" 2>/dev/null) || continue
  tmp=/verif/target/asan-trace-$$.json
  python3 -c "import json,sys;json.dump(json.load(open(sys.argv[1]))['case'],open(sys.argv[2],'w'))" "$f" "$tmp" || continue
  rep=$(ASAN_OPTIONS=detect_leaks=0:detect_odr_violation=0:allocator_may_return_null=1 VH_FUZZ=$ID:$part timeout 300 $BIN "$tmp" 2>&1)
  if echo "$rep" | grep -q "ERROR: AddressSanitizer"; then
    kind=$(echo "$rep" | grep -m1 "ERROR: AddressSanitizer" | sed 's/.*AddressSanitizer: \([a-z-]*\).*/\1/')
    site=$(echo "$rep" | grep -m1 "^SUMMARY: AddressSanitizer" | sed 's/.*\/repo\///; s/ in .*//')
    mkdir -p /verif/replays/$ID
    out=/verif/replays/$ID/fail-asan-$part-crash-$(basename "$f" .json).json
    python3 - "$tmp" "$out" "$ID" "$part" "$kind" "$site" <<'PY'
import json,sys
f,out,pid,part,kind,site=sys.argv[1:7]
case=json.load(open(f))
json.dump({"property":pid,"part":part,"expect":"pass","asan":True,"sig":"asan/%s/%s"%(kind,site),
           "msg":"AddressSanitizer: %s at %s; crashed the long-running checker, passes in a fresh uninstrumented process; reproduce with: /verif/run.sh %s replay <this file>"%(kind,site,pid),"case":case},open(out,"w"),indent=1)
PY
    rm -f "$tmp"
    echo "  failure [asan/$kind/$site]: AddressSanitizer reports $kind at $site while the check executes this (valid) case"
    echo "VIOLATION property=$ID replay=$out"
    exit 1
  fi
  rm -f "$tmp"
done
echo "INCONCLUSIVE property=$ID the checker crashed; the crash reproduces neither in a fresh process nor under AddressSanitizer from the traced cases"
exit 2
