#!/usr/bin/env python3
"""Regenerates /verif/MANIFEST.json from the table below (so that it is always schema-valid)."""
import json, subprocess, sys

CLAIMED = {
    # id: (category, text, note, technique, design_ref)
}
exec(open('/verif/manifest_table.py').read())

props = [json.loads(l) for l in open('/verif/properties.jsonl')]
ids = [p['id'] for p in props]

hook_commits = subprocess.run(['git', '-C', '/repo', 'log', '--format=%H', '--grep', '^verif hooks'],
                              capture_output=True, text=True).stdout.split()

checks = []
na = []
for i in ids:
    if i in CLAIMED:
        cat, text, note, tech, ref = CLAIMED[i]
        checks.append({
            "property_id": i,
            "quick_cmd": f"./run.sh {i} quick",
            "thorough_cmd": f"./run.sh {i} thorough",
            "evidence_file": f"/verif/evidence/{i}.json",
            "replay_cmd_template": f"./run.sh {i} replay {{path}}",
            "engine": "vh",
            "level_claimed": {"category": cat, "text": text, "design_ref": ref},
            "level_note": note,
            "technique": tech + "; thorough tier adds a coverage-guided libFuzzer campaign (AddressSanitizer) " + ("over the decoder entry points" if i == "C10" else "whose inputs are cases of this check and whose mutator is structure-aware (list surgery on steps/operations, grafts from generated donor cases)"),
        })
    else:
        na.append({"property_id": i, "reason": NOT_CLAIMED.get(i, "check not built yet in this session; property-based testing applies (see DESIGN.md section 4) and the check is under construction")})

m = {
    "version": 1,
    "setup_cmd": "cd /verif/harness && CARGO_NET_OFFLINE=true cargo build --bins && CARGO_NET_OFFLINE=true cargo build --profile ship --bin dec_worker && (RUSTFLAGS='--cfg y_crdt_y_crdt_verif -Zsanitizer=address' CARGO_NET_OFFLINE=true cargo +nightly build --profile ship --bin dec_worker --target x86_64-unknown-linux-gnu --target-dir /verif/target/asan || true)",
    "hooks": {
        "guard": "--cfg y_crdt_y_crdt_verif",
        "enable": "RUSTFLAGS/--cfg y_crdt_y_crdt_verif set in /verif/harness/.cargo/config.toml; the harness path-depends on /repo/yrs, so every check rebuilds /repo's working tree with the hooks on",
        "baseline_off_cmd": "cd /repo && cargo test --workspace --no-fail-fast --offline",
        "source_commits": hook_commits,
        "add_only": True,
    },
    "engines": [
        {"name": "vh", "path": "/verif/harness", "serves_properties": sorted(CLAIMED.keys()),
         "kind_free_text": "Rust crate: proptest-driven generators (fixed ChaCha seeds derived from VERIF_SEED, 16 shards), manual shrink loop, reference-model/differential/metamorphic oracles, enumerated small universes, replay files, known-findings matcher, evidence writer; /verif/fuzz = cargo-fuzz crate with a generic structure-aware target (prop) and a decoders target, run by the thorough tiers through /verif/checks/fuzz_campaign.sh"},
    ],
    "checks": checks,
    "not_applicable": na,
    "notes": "All checks: exit 0 held / 1 violation (VIOLATION line) / 2 inconclusive (build failure or watchdog). Known findings: /verif/known_findings.json. A replay file with \"asan\": true is replayed in the AddressSanitizer build of the libFuzzer target (run.sh does that by itself).",
}
json.dump(m, open('/verif/MANIFEST.json', 'w'), indent=1)
print("claimed:", sorted(CLAIMED.keys()), "not claimed:", [x['property_id'] for x in na])
