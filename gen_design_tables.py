#!/usr/bin/env python3
"""Regenerates the generated tables of DESIGN.md: findings (section 6) and seeded changes (section 9)."""
import json,re,subprocess
p='/verif/DESIGN.md'
s=open(p).read()
d=json.load(open('/verif/known_findings.json'))['findings']
rows=[]
for e in d:
    what=re.sub(r'^fixed: property=\S+ \S+ ','',e['what']).replace('|','\\|').replace('\n',' ')
    if len(what)>420: what=what[:417]+'…'
    st=('fixed `%s`'%e['commit']) if e['status']=='fixed' else '**known**'
    rows.append('| %s | %s | %s | %s | `%s` |'%(e['id'],e['property'],what,st,e['signature']))
table='| id | property | what failed | status | signature |\n|----|----------|-------------|--------|-----------|\n'+'\n'.join(rows)+'\n'
i=s.index('| id | property | what failed | status | signature |')
j=s.index('**Known findings, and why they are not repaired.**')
s=s[:i]+table+'\n'+s[j:]
m=subprocess.check_output(['python3','/verif/seeded/matrix.py']).decode()
if 'SEEDED-MATRIX-PLACEHOLDER' in s:
    s=s.replace('SEEDED-MATRIX-PLACEHOLDER','<!-- seeded-matrix-begin -->\n'+m+'<!-- seeded-matrix-end -->')
else:
    i=s.index('<!-- seeded-matrix-begin -->'); j=s.index('<!-- seeded-matrix-end -->')
    s=s[:i]+'<!-- seeded-matrix-begin -->\n'+m+s[j:]
open(p,'w').write(s)
print('tables regenerated:',len(rows),'findings')
