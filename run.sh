#!/bin/bash
# usage: run.sh <ID> quick|thorough|replay [file]
# exit 0 = held, 1 = violation (VIOLATION line), 2 = inconclusive (build failure, watchdog)
set -u
ID="${1:?property id}"
MODE="${2:-quick}"
export CARGO_NET_OFFLINE=true
mkdir -p /verif/target /verif/evidence
cd /verif/harness || exit 2
LOG="/verif/target/build-$ID-$$.log"
if ! cargo build --bins >"$LOG" 2>&1; then
  echo "INCONCLUSIVE property=$ID build of the harness against /repo failed:"
  grep -E "^error" -A12 "$LOG" | head -60
  rm -f "$LOG"
  exit 2
fi
rm -f "$LOG"
case "$MODE" in
  quick)
    if [ -x "/verif/checks/$ID.sh" ]; then
      exec "/verif/checks/$ID.sh" "$MODE"
    fi
    exec /verif/target/debug/vcheck "$ID" --tier "$MODE" ;;
  thorough)
    # generated search first; the coverage-guided campaigns only if it held
    if [ -x "/verif/checks/$ID.sh" ]; then
      "/verif/checks/$ID.sh" "$MODE"
    else
      /verif/target/debug/vcheck "$ID" --tier "$MODE"
    fi
    rc=$?
    [ $rc -ne 0 ] && exit $rc
    exec /verif/checks/fuzz_campaign.sh "$ID" ;;
  replay)
    exec /verif/target/debug/vcheck "$ID" --replay "${3:?replay file}" ;;
  *) echo "unknown mode $MODE"; exit 2 ;;
esac
