#!/bin/bash
# usage: run.sh <ID> quick|thorough|replay [file]
# exit 0 = held, 1 = violation (VIOLATION line), 2 = inconclusive (build failure, watchdog)
set -u
ID="${1:?property id}"
MODE="${2:-quick}"
ORIG_PWD="$PWD"
export CARGO_NET_OFFLINE=true
mkdir -p /verif/target /verif/evidence
cd /verif/harness || exit 2
LOG="/verif/target/build-$ID-$$.log"
if ! cargo build --bins >"$LOG" 2>&1; then
  echo "INCONCLUSIVE property=$ID build of the harness against /repo failed:"
  grep -E "^error" -A12 "$LOG" | head -60
  rm -f "$LOG"
  exit 2
fi
rm -f "$LOG"
case "$MODE" in
  quick)
    if [ -x "/verif/checks/$ID.sh" ]; then
      exec "/verif/checks/$ID.sh" "$MODE"
    fi
    /verif/target/debug/vcheck "$ID" --tier "$MODE"
    rc=$?
    # 3 = the checker crashed and no traced case reproduces it: ask AddressSanitizer
    [ $rc -eq 3 ] && exec /verif/checks/asan_traces.sh "$ID" "/verif/target/trace/$ID"
    exit $rc ;;
  thorough)
    # generated search first; the coverage-guided campaigns only if it held
    if [ -x "/verif/checks/$ID.sh" ]; then
      "/verif/checks/$ID.sh" "$MODE"
    else
      /verif/target/debug/vcheck "$ID" --tier "$MODE"
    fi
    rc=$?
    [ $rc -eq 3 ] && exec /verif/checks/asan_traces.sh "$ID" "/verif/target/trace/$ID"
    [ $rc -ne 0 ] && exit $rc
    exec /verif/checks/fuzz_campaign.sh "$ID" ;;
  replay)
    FILE="${3:?replay file}"
    case "$FILE" in /*) ;; *) FILE="$ORIG_PWD/$FILE" ;; esac
    if grep -q '"asan": true' "$FILE" 2>/dev/null; then
      # a memory error only AddressSanitizer sees: replay in the instrumented libFuzzer binary
      part=$(python3 -c "import json,sys;print(json.load(open(sys.argv[1]))['part'])" "$FILE")
      (cd /verif/harness && RUSTFLAGS="--cfg y_crdt_y_crdt_verif" cargo +nightly fuzz build prop --fuzz-dir /verif/fuzz --target-dir /verif/target/fuzz >/dev/null 2>&1) || { echo "INCONCLUSIVE property=$ID the instrumented target does not build"; exit 2; }
      tmp=/verif/target/asan-replay-$$.json
      python3 -c "import json,sys;json.dump(json.load(open(sys.argv[1]))['case'],open(sys.argv[2],'w'))" "$FILE" "$tmp"
      rep=$(ASAN_OPTIONS=detect_leaks=0:detect_odr_violation=0 VH_FUZZ=$ID:$part /verif/target/fuzz/x86_64-unknown-linux-gnu/release/prop "$tmp" 2>&1); rm -f "$tmp"
      if echo "$rep" | grep -q "ERROR: AddressSanitizer\|FUZZ-FAILURE"; then
        echo "$rep" | grep -m3 "ERROR: AddressSanitizer\|SUMMARY\|FUZZ-FAILURE"
        echo "VIOLATION property=$ID replay=$FILE"; exit 1
      fi
      echo "replay passes (AddressSanitizer build): $FILE"; exit 0
    fi
    exec /verif/target/debug/vcheck "$ID" --replay "$FILE" ;;
  *) echo "unknown mode $MODE"; exit 2 ;;
esac
