#!/bin/bash
# validates MANIFEST.json and every evidence file against the schemas
python3-vt - <<'PY'
import json,jsonschema,glob,sys
ok=True
try:
    jsonschema.validate(json.load(open('/verif/MANIFEST.json')), json.load(open('/root/.vp/MANIFEST.schema.json')))
    print('MANIFEST valid')
except Exception as e:
    print('MANIFEST INVALID', e); ok=False
sch=json.load(open('/root/.vp/EVIDENCE.schema.json'))
for f in sorted(glob.glob('/verif/evidence/*.json')):
    try:
        jsonschema.validate(json.load(open(f)), sch); print(f,'valid')
    except Exception as e:
        print(f,'INVALID',str(e)[:300]); ok=False
sys.exit(0 if ok else 1)
PY
